package main

// rules_fmt.go — writer/reader agreement rules FMT1..FMT8 (C07, C16) on the eight serialisable kinds.

import (
	"fmt"
	"go/ast"
	"go/constant"
	"go/token"
	"go/types"
	"os"
	"regexp"
	"sort"
	"strings"

	"golang.org/x/tools/go/ssa"
)

type serKind struct {
	Name   string // FlatIndex, HNSWIndex, …
	T      types.Type
	WDecl  *ast.FuncDecl
	RDecl  *ast.FuncDecl
	Writer *fmtSide
	Reader *fmtSide
}

// serKinds discovers every comet type that has both WriteTo and ReadFrom methods.
func serKinds(w *World) []*serKind {
	var out []*serKind
	scope := w.Types.Scope()
	for _, n := range scope.Names() {
		tn, ok := scope.Lookup(n).(*types.TypeName)
		if !ok || tn.IsAlias() {
			continue
		}
		pt := types.NewPointer(tn.Type())
		wf, rf := w.Method(pt, "WriteTo"), w.Method(pt, "ReadFrom")
		if wf == nil || rf == nil {
			continue
		}
		wd, rd := w.Decl(w.Name(wf)), w.Decl(w.Name(rf))
		if wd == nil || rd == nil {
			continue
		}
		k := &serKind{Name: n, T: pt, WDecl: wd, RDecl: rd}
		k.Writer = extractFmt(w, wd, true)
		k.Reader = extractFmt(w, rd, false)
		if len(k.Writer.Calls) == 0 && len(k.Reader.Calls) == 0 {
			continue // "not supported" stubs (the persistent store): nothing is coded
		}
		out = append(out, k)
	}
	sort.Slice(out, func(i, j int) bool { return out[i].Name < out[j].Name })
	return out
}

// implicit bound pairs the two sides rely on: writer bound ↔ reader bound (both not carried by the stream).
// Each pair is justified by an invariant of the index (DESIGN appendix C) and is re-checked by ruleImplicitInvariants.
var implicitPairs = map[string]string{
	"idx.centroids": "idx.nlist", // trained ⇒ len(centroids) == nlist (Train requires len(vectors) >= nlist; k-means returns min(k,n))
	"vec":           "idx.dim",   // Add rejects len(vector) != dim
	"idx.codebooks": "idx.M",     // Train builds M codebooks
	"code":          "idx.M",     // encode* allocate make([]uint8, idx.M)
	"cv.Code":       "idx.M",
	"idx.codes[i]":  "idx.M",
	"node.Vector()": "idx.dim",
}

// implicitPairsByType: the same pairs with the writer's bound described by nameFree (locals by type).
var implicitPairsByType = map[string]string{
	"$*IVFIndex.centroids":   "idx.nlist",
	"$*IVFPQIndex.centroids": "idx.nlist",
	"$[]float32":             "idx.dim", // a stored vector
	"$*PQIndex.codebooks":    "idx.M",
	"$*IVFPQIndex.codebooks": "idx.M",
	"$[]uint8":               "idx.M", // a PQ code
	"$CompressedVector.Code": "idx.M",
	"$*PQIndex.codes[$int]":  "idx.M",
	"$VectorNode.Vector()":   "idx.dim",
	"$*VectorNode.Vector()":  "idx.dim",
}

// notPersisted: mutable fields deliberately absent from the stream, one named symbol each, with the reason.
var notPersisted = map[string]string{
	"HNSWIndex.nextID": "private id source used only for vectors added with id 0; every property quantifies over non-zero ids (DESIGN section 8, recorded as ambiguous)",
}

func ruleFMT(r *Run, p string, doGrammar, doCounts, doHeader, doErr, doMagic, doFlow, doCover, doCommit bool) []*serKind {
	w := r.W
	kinds := serKinds(w)
	r.Doc(p+".FMT1", "the reader consumes a different byte grammar than the writer produced: reload fails or yields another index")
	r.Doc(p+".FMT2", "byte counts returned by WriteTo/ReadFrom differ from the stream length")
	r.Doc(p+".FMT3", "a stream written with other construction parameters is accepted")
	r.Doc(p+".FMT4", "a read error (truncation) is ignored: partial index reported as success")
	r.Doc(p+".FMT5", "a stream of another kind or version is accepted")
	r.Doc(p+".FMT6", "the reader consumes bytes beyond its own section: concatenated streams break")
	r.Doc(p+".FMT7", "mutable state is not persisted / restored")
	r.Doc(p+".FMT8", "a failed read leaves a half-loaded index")
	if len(kinds) != 8 {
		r.add(p+".FMT1", "kinds:floor", "-", fmt.Sprintf("%d serialisable kinds found, expected 8", len(kinds)), Floor)
	}
	magics := map[string]string{}
	for _, k := range kinds {
		r.Analysed("(*"+k.Name+").WriteTo", "(*"+k.Name+").ReadFrom")
		wsite := w.Pos(k.WDecl.Pos()) + " (*" + k.Name + ").WriteTo"
		rsite := w.Pos(k.RDecl.Pos()) + " (*" + k.Name + ").ReadFrom"
		for _, pr := range append(k.Writer.Problems, k.Reader.Problems...) {
			r.Und(p+".FMT1", k.Name+":model", wsite, pr)
		}
		if doGrammar {
			wg, wimpl := renderGrammar(k.Writer.Toks)
			rg, rimpl := renderGrammar(k.Reader.Toks)
			if wg == rg {
				r.Ok(p+".FMT1", k.Name+":grammar", wsite, "writer grammar = reader grammar = "+wg)
			} else {
				r.Bad(p+".FMT1", k.Name+":grammar", rsite, "writer emits  "+wg+"  but reader consumes  "+rg)
			}
			// implicit bounds
			if len(wimpl) != len(rimpl) {
				r.Bad(p+".FMT1", k.Name+":implicit", rsite, fmt.Sprintf("writer has implicit bounds %v, reader %v", wimpl, rimpl))
			} else {
				for i := range wimpl {
					ws := strings.Replace(wimpl[i], k.Writer.RecvName+".", "idx.", 1)
					rs := strings.Replace(rimpl[i], k.Reader.RecvName+".", "idx.", 1)
					ok := implicitPairs[ws] == rs || ws == rs
					if !ok {
						// the same pair described without the names of locals
						if key, has := k.Writer.BoundKey[wimpl[i]]; has && implicitPairsByType[key] == rs {
							ok = true
						}
					}
					if os.Getenv("COMETLINT_DEBUG_IMPL") != "" {
						fmt.Fprintf(os.Stderr, "IMPL %s: %q -> key %q ; reader %q\n", k.Name, ws, k.Writer.BoundKey[wimpl[i]], rs)
					}
					r.Check(ok, p+".FMT1", fmt.Sprintf("%s:implicit:%s", k.Name, ws), rsite, "loop bound not carried by the stream: writer "+ws+" ↔ reader "+rs+" (frozen invariant)",
						"writer loops over "+ws+" but reader loops "+rs+" times and the stream carries no count")
				}
			}
			ruleFieldWidths(r, p+".FMT1", k)
			ruleLoopsCoverContainers(r, p+".FMT1", k)
		}
		if doCounts {
			ruleByteCounts(r, p+".FMT2", k)
		}
		if doHeader || doCover {
			ruleHeaderAndCoverage(r, p, k, doHeader, doCover)
		}
		if doHeader {
			ruleHeaderPairing(r, p+".FMT3", k)
			ruleCtorParamsImmutable(r, p+".FMT12", k)
		}
		if doErr {
			ruleReadErrors(r, p+".FMT4", k)
		}
		if doCover {
			ruleDecodedUsed(r, p+".FMT9", k)
			ruleIterationRestores(r, p+".FMT10", k)
			ruleRejections(r, p+".FMT11", k)
		}
		if doMagic {
			wm, rm, wv, rv := magicAndVersion(w, k)
			r.Check(wm != "" && wm == rm, p+".FMT5", k.Name+":magic", rsite, "magic "+wm+" written and required", fmt.Sprintf("writer magic %q, reader requires %q", wm, rm))
			r.Check(wv != "" && wv == rv, p+".FMT5", k.Name+":version", rsite, "version "+wv+" written and required", fmt.Sprintf("writer version %q, reader requires %q", wv, rv))
			if other, dup := magics[wm]; dup && wm != "" {
				r.Bad(p+".FMT5", k.Name+":magic:distinct", wsite, "magic "+wm+" is also used by "+other)
			}
			magics[wm] = k.Name
		}
		if doFlow {
			ruleReaderFlow(r, p+".FMT6", k)
		}
		if doCommit {
			ruleCommitAfterDecode(r, p+".FMT8", k)
		}
	}
	if doMagic {
		r.Check(len(magics) == len(kinds), p+".FMT5", "magic:pairwise-distinct", "-", fmt.Sprintf("%d distinct magics for %d kinds", len(magics), len(kinds)), "magic numbers are not pairwise distinct")
	}
	return kinds
}

// ruleFieldWidths: corresponding FIELD tokens have the same width and signedness class on both sides.
func ruleFieldWidths(r *Run, rule string, k *serKind) {
	w := r.W
	wf, rf := fieldsOnly(flattenToks(k.Writer.Toks)), fieldsOnly(flattenToks(k.Reader.Toks))
	if len(wf) != len(rf) {
		return // reported by the grammar comparison
	}
	bad := 0
	for i := range wf {
		if strings.TrimPrefix(wf[i].Width, "[]") != strings.TrimPrefix(rf[i].Width, "[]") {
			bad++
			r.Bad(rule, fmt.Sprintf("%s:field#%d", k.Name, i), w.Pos(rf[i].Pos)+" (*"+k.Name+").ReadFrom",
				fmt.Sprintf("field %d: writer emits %s as %s (%s), reader decodes %s into %s (%s)", i, wf[i].Arg, wf[i].Width, w.Pos(wf[i].Pos), rf[i].Arg, rf[i].Width, w.Pos(rf[i].Pos)))
		}
	}
	if bad == 0 {
		r.Ok(rule, k.Name+":field-types", w.Pos(k.RDecl.Pos())+" (*"+k.Name+").ReadFrom", fmt.Sprintf("%d fixed-width fields, identical types on both sides", len(wf)))
	}
}

func fieldsOnly(ts []*fTok) []*fTok {
	var out []*fTok
	for _, t := range ts {
		if t.Kind == "FIELD" {
			out = append(out, t)
		}
	}
	return out
}

// ruleLoopsCoverContainers: every writer loop ranges over a whole container (range X, or i < len(X)), and the count
// token that precedes it is len(X) of that same container.
func ruleLoopsCoverContainers(r *Run, rule string, k *serKind) {
	w := r.W
	for i, t := range flattenToks(k.Writer.Toks) {
		if t.Kind != "LOOP" {
			continue
		}
		site := w.Pos(t.Pos) + " (*" + k.Name + ").WriteTo"
		key := fmt.Sprintf("%s:loop#%d:covers", k.Name, i)
		b := t.Len
		ok := !strings.HasPrefix(b, "NONCANONICAL") && b != "?"
		// a for-loop bound must be len(X) or a construction-time field of the receiver
		if ok && !isRangeable(k.Writer, t) && !t.Whole {
			ok = strings.HasPrefix(b, "len(") || strings.HasPrefix(b, k.Writer.RecvName+".")
		}
		r.Check(ok, rule, key, site, "writer loop covers the whole container "+b, "writer loop bound "+b+" does not cover a whole container (elements may be left out of the stream)")
	}
}

func isRangeable(s *fmtSide, t *fTok) bool {
	// LOOP tokens created from RangeStmt carry the ranged expression itself
	found := false
	ast.Inspect(s.Decl.Body, func(n ast.Node) bool {
		if rs, ok := n.(*ast.RangeStmt); ok && rs.Pos() == t.Pos {
			found = true
		}
		return true
	})
	return found
}

// ruleByteCounts: FMT2.
func ruleByteCounts(r *Run, rule string, k *serKind) {
	w := r.W
	for _, side := range []*fmtSide{k.Writer, k.Reader} {
		fname := "WriteTo"
		if !side.Writer {
			fname = "ReadFrom"
		}
		site := w.Pos(side.Decl.Pos()) + " (*" + k.Name + ")." + fname
		// does the function return a count at all?
		res := side.Decl.Type.Results
		if res == nil || len(res.List) < 2 {
			continue
		}
		if side.HelperFn == nil {
			if len(fieldsOnly(flattenToks(side.Toks))) > 0 {
				r.Und(rule, k.Name+":"+fname+":helper", site, "fields are coded without the counting helper")
			}
			continue
		}
		// types covered by the helper's type switch
		covered := map[string]bool{}
		// the type switch may live in the closure itself or in a package function it calls (bytes += sizeOf(data))
		var switchRoots []ast.Node
		switchRoots = append(switchRoots, side.HelperFn)
		ast.Inspect(side.HelperFn, func(n ast.Node) bool {
			if c, ok := n.(*ast.CallExpr); ok {
				if id, ok := c.Fun.(*ast.Ident); ok {
					if obj, ok := w.Info.Uses[id].(*types.Func); ok && obj.Pkg() == w.Types {
						if sf := w.Prog.FuncValue(obj); sf != nil {
							if d := w.Decl(w.Name(sf)); d != nil {
								switchRoots = append(switchRoots, d)
							}
						}
					}
				}
			}
			return true
		})
		for _, root := range switchRoots {
			ast.Inspect(root, func(n ast.Node) bool {
				cc, ok := n.(*ast.CaseClause)
				if !ok {
					return true
				}
				for _, e := range cc.List {
					if tv, ok := w.Info.Types[e]; ok && tv.IsType() {
						t := tv.Type
						if p, ok := t.Underlying().(*types.Pointer); ok && !side.Writer {
							t = p.Elem()
						}
						wd, _ := widthOf(t)
						covered[wd] = true
						// the increment in the clause must equal the width
						want := map[string]string{"b8": "1", "b16": "2", "b32": "4", "b64": "8"}[strings.SplitN(wd, ":", 2)[0]]
						if want != "" {
							okInc := false
							isWant := func(e ast.Expr) bool {
								v, ok := astConstInt(w, e)
								return ok && fmt.Sprint(v) == want
							}
							for _, st := range cc.Body {
								switch x := st.(type) {
								case *ast.AssignStmt:
									if x.Tok == token.ADD_ASSIGN && len(x.Rhs) == 1 && isWant(x.Rhs[0]) {
										okInc = true
									}
									// the result variable of an inlined sizing helper (`return 4` → `r0_h1 = 4`, added to the count after it)
									if x.Tok == token.ASSIGN && len(x.Rhs) == 1 && len(x.Lhs) == 1 && isWant(x.Rhs[0]) {
										if id, ok := x.Lhs[0].(*ast.Ident); ok && regexp.MustCompile(`^r\d+_h\d+$`).MatchString(id.Name) {
											okInc = true
										}
									}
									// n = n + 4
									if x.Tok == token.ASSIGN && len(x.Rhs) == 1 && len(x.Lhs) == 1 {
										if be, ok := ast.Unparen(x.Rhs[0]).(*ast.BinaryExpr); ok && be.Op == token.ADD {
											l, rr := types.ExprString(x.Lhs[0]), be
											if (types.ExprString(rr.X) == l && isWant(rr.Y)) || (types.ExprString(rr.Y) == l && isWant(rr.X)) {
												okInc = true
											}
										}
									}
								case *ast.IncDecStmt:
									if x.Tok == token.INC && want == "1" {
										okInc = true
									}
								case *ast.ReturnStmt:
									if len(x.Results) == 1 && isWant(x.Results[0]) {
										okInc = true
									}
								}
							}
							if !okInc {
								r.Bad(rule, k.Name+":"+fname+":increment:"+wd, w.Pos(cc.Pos())+" (*"+k.Name+")."+fname, "the counting helper does not add "+want+" bytes for "+wd)
							}
						}
					}
				}
				return true
			})
		}
		var missing []string
		for _, t := range fieldsOnly(flattenToks(side.Toks)) {
			if !covered[t.Width] {
				missing = append(missing, t.Width+" ("+t.Arg+" at "+w.Pos(t.Pos)+")")
			}
		}
		missing = dedup(missing)
		r.Check(len(missing) == 0, rule, k.Name+":"+fname+":helper-types", site, fmt.Sprintf("every coded type is counted by the helper (%v)", sortedStrings(covered)),
			"types coded but not counted by the helper: "+strings.Join(missing, ", "))
		// every raw transfer is followed by a count update mentioning its length
		for i, t := range flattenToks(side.Toks) {
			if t.Kind != "RAW" {
				continue
			}
			ok := rawCounted(side, t)
			r.Check(ok, rule, fmt.Sprintf("%s:%s:raw#%d", k.Name, fname, i), w.Pos(t.Pos)+" (*"+k.Name+")."+fname, "raw transfer of "+t.Len+" bytes is added to the byte count", "raw transfer of "+t.Len+" bytes is not added to the returned byte count")
		}
	}
}

// rawCounted: the statement list containing the raw call has, right after the statement holding it, `count += <expr mentioning the length>`.
func rawCounted(side *fmtSide, t *fTok) bool {
	found := false
	for _, root := range side.Roots {
		if rawCountedIn(root, t) {
			found = true
		}
	}
	return found
}

func rawCountedIn(root ast.Node, t *fTok) bool {
	found := false
	ast.Inspect(root, func(n ast.Node) bool {
		var list []ast.Stmt
		switch b := n.(type) {
		case *ast.BlockStmt:
			list = b.List
		case *ast.CaseClause:
			list = b.Body
		default:
			return true
		}
		for i, st := range list {
			if st.Pos() <= t.Pos && t.Pos < st.End() {
				// is the call directly in this statement (not in a nested block of it other than if-init)?
				direct := true
				if ifs, ok := st.(*ast.IfStmt); ok {
					direct = ifs.Init != nil && ifs.Init.Pos() <= t.Pos && t.Pos < ifs.Init.End()
				} else if _, ok := st.(*ast.ForStmt); ok {
					direct = false
				} else if _, ok := st.(*ast.RangeStmt); ok {
					direct = false
				} else if _, ok := st.(*ast.BlockStmt); ok {
					direct = false
				}
				if !direct {
					continue
				}
				for j := i + 1; j < len(list) && j <= i+1; j++ {
					if as, ok := list[j].(*ast.AssignStmt); ok && as.Tok == token.ADD_ASSIGN && len(as.Rhs) == 1 {
						rhs := exprStr(as.Rhs[0])
						l := t.Len
						if t.CountLen != "" {
							l = t.CountLen
						}
						if strings.Contains(rhs, l) || (isNumber(l) && rhs == l) {
							found = true
						}
					}
				}
			}
		}
		return true
	})
	return found
}

// ruleHeaderAndCoverage: FMT3 (construction parameters emitted by the writer are compared by the reader, mismatch ⇒ error)
// and FMT7 (every mutable field is emitted and restored).
func ruleHeaderAndCoverage(r *Run, p string, k *serKind, doHeader, doCover bool) {
	w := r.W
	recvW, recvR := k.Writer.RecvName, k.Reader.RecvName
	st, _ := k.T.(*types.Pointer).Elem().Underlying().(*types.Struct)
	if st == nil {
		return
	}
	// receiver fields mentioned in the writer's emitted expressions / loop bounds / conditions
	emitted := map[string]bool{}
	var visit func(ts []*fTok)
	mention := func(s string) {
		for i := 0; i < st.NumFields(); i++ {
			f := st.Field(i).Name()
			if containsSel(s, recvW, f) {
				emitted[f] = true
			}
		}
	}
	// also through local aliases: `x := idx.f` / `x := []byte(idx.f)` / `x, err := idx.f.ToBytes()`
	alias := map[string]string{}
	ast.Inspect(k.WDecl.Body, func(n ast.Node) bool {
		if as, ok := n.(*ast.AssignStmt); ok && len(as.Rhs) == 1 {
			rhs := exprStr(as.Rhs[0])
			for i := 0; i < st.NumFields(); i++ {
				f := st.Field(i).Name()
				if containsSel(rhs, recvW, f) {
					for _, l := range as.Lhs {
						if id, ok := l.(*ast.Ident); ok && id.Name != "_" && !isErrorType(w.Info.TypeOf(id)) {
							alias[id.Name] = f
						}
					}
				}
			}
		}
		if rs, ok := n.(*ast.RangeStmt); ok {
			rx := exprStr(rs.X)
			for i := 0; i < st.NumFields(); i++ {
				f := st.Field(i).Name()
				if containsSel(rx, recvW, f) {
					emitted[f] = true
				}
			}
		}
		return true
	})
	visit = func(ts []*fTok) {
		for _, t := range ts {
			mention(t.Arg)
			mention(t.Len)
			mention(t.Cond)
			for a, f := range alias {
				if identIn(t.Arg, a) || identIn(t.Len, a) || identIn(t.Cond, a) {
					emitted[f] = true
				}
			}
			visit(t.Body)
			visit(t.Else)
		}
	}
	visit(k.Writer.Toks)
	// reader: fields compared (with error return) and fields assigned
	compared, assigned := map[string]bool{}, map[string]bool{}
	ast.Inspect(k.RDecl.Body, func(n ast.Node) bool {
		switch x := n.(type) {
		case *ast.IfStmt:
			cs := exprStr(x.Cond)
			returnsErr := false
			for _, s := range x.Body.List {
				if rs, ok := s.(*ast.ReturnStmt); ok && len(rs.Results) > 0 {
					last := exprStr(rs.Results[len(rs.Results)-1])
					if last != "nil" {
						returnsErr = true
					}
				}
			}
			// the rejection must depend on the comparison alone: `if read != recv.f { return err }`;
			// a conjunction (`if trained && read != recv.f`) accepts mismatching streams in some states
			single := false
			if be, ok := x.Cond.(*ast.BinaryExpr); ok && be.Op == token.NEQ {
				single = true
			}
			if returnsErr && single {
				for i := 0; i < st.NumFields(); i++ {
					if containsSel(cs, recvR, st.Field(i).Name()) {
						compared[st.Field(i).Name()] = true
					}
				}
			}
		case *ast.AssignStmt:
			for _, l := range x.Lhs {
				ls := exprStr(l)
				for i := 0; i < st.NumFields(); i++ {
					f := st.Field(i).Name()
					if ls == recvR+"."+f || strings.HasPrefix(ls, recvR+"."+f+"[") || strings.HasPrefix(ls, recvR+"."+f+".") {
						assigned[f] = true
					}
				}
			}
		case *ast.CallExpr:
			// idx.numDocs.Store(x), idx.f.UnmarshalBinary(...), delete/clear
			if sel, ok := x.Fun.(*ast.SelectorExpr); ok {
				xs := exprStr(sel.X)
				for i := 0; i < st.NumFields(); i++ {
					f := st.Field(i).Name()
					if xs == recvR+"."+f && (sel.Sel.Name == "Store" || sel.Sel.Name == "UnmarshalBinary" || sel.Sel.Name == "ReadFrom") {
						assigned[f] = true
					}
				}
			}
		}
		return true
	})
	// mutable fields: written by any method of the type other than constructors / ReadFrom
	mutable := mutableFields(w, k)
	site := w.Pos(k.RDecl.Pos()) + " (*" + k.Name + ").ReadFrom"
	for i := 0; i < st.NumFields(); i++ {
		f := st.Field(i).Name()
		ft := tstr(st.Field(i).Type(), nil)
		if strings.HasPrefix(ft, "sync.") {
			continue
		}
		if doHeader && emitted[f] && !mutable[f] {
			r.Check(compared[f] || assigned[f], p+".FMT3", k.Name+":header:"+f, site, "construction parameter "+f+" is written and compared on read (mismatch ⇒ error)",
				"construction parameter "+f+" is written but the reader neither compares it with the receiver nor restores it")
		}
		if doCover && mutable[f] && !emitted[f] && strings.HasPrefix(ft, "sync/atomic.") && observationalCounter(w, k.Name, f) {
			r.Note(p+".FMT7", k.Name+":state:"+f, site, "atomic counter "+f+" is only ever reported (no loaded value reaches a branch, an index, a store into index state or a call into the package): not part of the index's answers")
			continue
		}
		if doCover && mutable[f] {
			if reason, ok := notPersisted[k.Name+"."+f]; ok {
				r.Note(p+".FMT7", k.Name+":state:"+f, site, "mutable field "+f+" is not persisted — accepted: "+reason)
				continue
			}
			r.Check(emitted[f] && (assigned[f] || compared[f]), p+".FMT7", k.Name+":state:"+f, site, "mutable field "+f+" is written and restored (or compared) on read",
				fmt.Sprintf("mutable field %s: written=%v restored=%v compared=%v", f, emitted[f], assigned[f], compared[f]))
		}
	}
}

func containsSel(s, recv, field string) bool {
	needle := recv + "." + field
	i := strings.Index(s, needle)
	for i >= 0 {
		end := i + len(needle)
		startOK := i == 0 || !isIdentChar(s[i-1])
		endOK := end == len(s) || !isIdentChar(s[end])
		if startOK && endOK {
			return true
		}
		j := strings.Index(s[end:], needle)
		if j < 0 {
			return false
		}
		i = end + j
	}
	return false
}

func identIn(s, id string) bool {
	i := strings.Index(s, id)
	for i >= 0 {
		end := i + len(id)
		startOK := i == 0 || (!isIdentChar(s[i-1]) && s[i-1] != '.')
		endOK := end == len(s) || !isIdentChar(s[end])
		if startOK && endOK {
			return true
		}
		j := strings.Index(s[end:], id)
		if j < 0 {
			return false
		}
		i = end + j
	}
	return false
}

func isIdentChar(b byte) bool {
	return b == '_' || b >= 'a' && b <= 'z' || b >= 'A' && b <= 'Z' || b >= '0' && b <= '9'
}

// mutableFields: receiver fields stored by some method of the type other than ReadFrom (constructors are functions, not methods).
func mutableFields(w *World, k *serKind) map[string]bool {
	out := map[string]bool{}
	for _, fn := range w.Funcs {
		if fn.Signature.Recv() == nil || namedTypeName(fn.Signature.Recv().Type()) != k.Name {
			continue
		}
		if fn.Name() == "ReadFrom" {
			continue
		}
		for f := range fieldsWritten(w, fn) {
			out[f] = true
		}
		// atomic counters / bitmaps mutated through method calls on the field
		c := NewCanon(w)
		for _, call := range callsIn(fn, func(cc *ssa.CallCommon) bool { return true }) {
			cc := call.Common()
			if len(cc.Args) == 0 {
				continue
			}
			n := calleeName(cc)
			s := c.S(cc.Args[0])
			if !strings.HasPrefix(s, "P0.") || strings.Contains(s[3:], ".") || strings.Contains(s[3:], "[") {
				continue
			}
			f := s[3:]
			if strings.HasPrefix(n, roaringBitmap) && roaringMutators[strings.TrimPrefix(n, roaringBitmap)] {
				out[f] = true
			}
			if strings.Contains(n, "atomic.") && (strings.HasSuffix(n, ").Add") || strings.HasSuffix(n, ").Store")) {
				out[f] = true
			}
		}
	}
	delete(out, "mu")
	return out
}

// ruleReadErrors: FMT4 — every stream call is the init of `if …; err != nil { return …, non-nil }`.
func ruleReadErrors(r *Run, rule string, k *serKind) {
	w := r.W
	for _, side := range []*fmtSide{k.Reader, k.Writer} {
		fname := "ReadFrom"
		if side.Writer {
			fname = "WriteTo"
		}
		checked := map[token.Pos]bool{}
		for _, root := range side.Roots {
			ast.Inspect(root, func(n ast.Node) bool {
				if fl, ok := n.(*ast.FuncLit); ok && fl == side.HelperFn {
					return false
				}
				ifs, ok := n.(*ast.IfStmt)
				if !ok || ifs.Init == nil {
					return true
				}
				// exactly the test `e != nil` of an error variable the init statement sets: a narrowed one
				// (`err != nil && !benign(err)`) lets some read errors through
				eo := errNilTest(w.Info, ifs.Cond)
				if eo == nil {
					return true
				}
				if ia, isAs := ifs.Init.(*ast.AssignStmt); !isAs || !errObjsOf(w.Info, ia)[eo] {
					return true
				}
				returns := false
				for _, s := range ifs.Body.List {
					if rs, ok := s.(*ast.ReturnStmt); ok && len(rs.Results) > 0 && exprStr(rs.Results[len(rs.Results)-1]) != "nil" {
						returns = true
					}
				}
				if !returns {
					return true
				}
				ast.Inspect(ifs.Init, func(m ast.Node) bool {
					if c, ok := m.(*ast.CallExpr); ok {
						checked[c.Pos()] = true
					}
					return true
				})
				return true
			})
		}
		// alternatively: `x, err := call(); if err != nil { return }` as two statements
		for _, root := range side.Roots {
			ast.Inspect(root, func(n ast.Node) bool {
				var list []ast.Stmt
				switch b := n.(type) {
				case *ast.BlockStmt:
					list = b.List
				case *ast.CaseClause:
					list = b.Body
				default:
					return true
				}
				for i := 0; i+1 < len(list); i++ {
					as, ok := list[i].(*ast.AssignStmt)
					if !ok {
						continue
					}
					errObjs := errObjsOf(w.Info, as)
					if len(errObjs) == 0 {
						continue
					}
					// the next control statement must be `if err != nil { return …, non-nil }`; plain assignments that do not
					// touch err may come in between (e.g. `bytesRead += n`)
					for j := i + 1; j < len(list); j++ {
						if a2, ok := list[j].(*ast.AssignStmt); ok {
							touches := false
							for o := range errObjsOf(w.Info, a2) {
								if errObjs[o] {
									touches = true
								}
							}
							if !touches {
								continue
							}
							break
						}
						ifs, ok := list[j].(*ast.IfStmt)
						if !ok || ifs.Init != nil || !errObjs[errNilTest(w.Info, ifs.Cond)] {
							break
						}
						returns := false
						for _, s := range ifs.Body.List {
							if rs, ok := s.(*ast.ReturnStmt); ok && len(rs.Results) > 0 && exprStr(rs.Results[len(rs.Results)-1]) != "nil" {
								returns = true
							}
						}
						if returns {
							ast.Inspect(as, func(m ast.Node) bool {
								if c, ok := m.(*ast.CallExpr); ok {
									checked[c.Pos()] = true
								}
								return true
							})
						}
						break
					}
				}
				return true
			})
		}
		// `return idx.sub.ReadFrom(r)` / `return io.ReadFull(...)` style tail calls propagate the error as well
		for _, root := range side.Roots {
			ast.Inspect(root, func(n ast.Node) bool {
				if rs, ok := n.(*ast.ReturnStmt); ok {
					for _, e := range rs.Results {
						if c, ok := e.(*ast.CallExpr); ok {
							checked[c.Pos()] = true
						}
					}
				}
				return true
			})
		}
		bad := 0
		for _, c := range side.Calls {
			if !checked[c.Pos()] {
				bad++
				r.Bad(rule, fmt.Sprintf("%s:%s:unchecked:%s", k.Name, fname, exprStr(c.Fun)), w.Pos(c.Pos())+" (*"+k.Name+")."+fname,
					"the error of "+exprStr(c)+" is not checked-and-returned immediately")
			}
		}
		if bad == 0 {
			r.Ok(rule, k.Name+":"+fname+":all-checked", w.Pos(side.Decl.Pos())+" (*"+k.Name+")."+fname, fmt.Sprintf("%d stream operations, each followed by an immediate error return", len(side.Calls)))
		}
		// the helper returns the codec error unchanged
		if side.HelperFn != nil {
			okHelper := false
			ast.Inspect(side.HelperFn, func(n ast.Node) bool {
				if rs, ok := n.(*ast.ReturnStmt); ok && len(rs.Results) == 1 {
					if id, isId := ast.Unparen(rs.Results[0]).(*ast.Ident); isId && w.Info.Uses[id] != nil && isErrorType(w.Info.Uses[id].Type()) {
						okHelper = true
					}
					if c, ok := rs.Results[0].(*ast.CallExpr); ok && strings.HasPrefix(calleeOfExpr(w.Info, c), "encoding/binary.") {
						okHelper = true
					}
				}
				return true
			})
			r.Check(okHelper, rule, k.Name+":"+fname+":helper-propagates", w.Pos(side.HelperFn.Pos())+" (*"+k.Name+")."+fname, "the counting helper returns the codec's error", "the counting helper does not return the codec's error")
		}
		// success is returned only at the end: no `return …, nil` before the last stream operation
		var lastCall token.Pos
		for _, c := range side.Calls {
			// operations inside inlined package functions are represented by their call site
			if c.Pos() > lastCall && c.Pos() >= side.Decl.Pos() && c.Pos() < side.Decl.End() {
				lastCall = c.Pos()
			}
		}
		for _, p := range side.Sites {
			if p > lastCall && p >= side.Decl.Pos() && p < side.Decl.End() {
				lastCall = p
			}
		}
		early := ""
		ast.Inspect(side.Decl.Body, func(n ast.Node) bool {
			if _, ok := n.(*ast.FuncLit); ok {
				return false // a return inside a closure does not return from the function
			}
			if rs, ok := n.(*ast.ReturnStmt); ok && len(rs.Results) > 0 && exprStr(rs.Results[len(rs.Results)-1]) == "nil" && rs.Pos() < lastCall {
				early = w.Pos(rs.Pos())
			}
			return true
		})
		r.Check(early == "", rule, k.Name+":"+fname+":success-last", w.Pos(side.Decl.Pos())+" (*"+k.Name+")."+fname, "the only success return follows every stream operation", "success is returned at "+early+" before all stream operations are done")
	}
}

// magicAndVersion extracts magic and version on both sides.
func magicAndVersion(w *World, k *serKind) (wm, rm, wv, rv string) {
	// writer: composite literal [4]byte{'F','L','A','T'}
	ast.Inspect(k.WDecl.Body, func(n ast.Node) bool {
		switch x := n.(type) {
		case *ast.CompositeLit:
			if at, ok := w.Info.TypeOf(x).Underlying().(*types.Array); ok && at.Len() == 4 && wm == "" {
				s := ""
				for _, e := range x.Elts {
					if tv, ok := w.Info.Types[e]; ok && tv.Value != nil {
						if v, ok := constantInt(tv); ok {
							s += string(rune(v))
						}
					}
				}
				wm = s
			}
		case *ast.AssignStmt:
			if len(x.Lhs) == 1 && exprStr(x.Lhs[0]) == "version" && len(x.Rhs) == 1 {
				if tv, ok := w.Info.Types[x.Rhs[0]]; ok && tv.Value != nil {
					wv = tv.Value.ExactString()
				}
			}
		}
		return true
	})
	// the header spelled with constants / through a raw-write helper: the first raw token carries []byte("XXXX"), the
	// first field token after it the version
	wtoks := flattenToks(k.Writer.Toks)
	if wm == "" && len(wtoks) > 0 && wtoks[0].Kind == "RAW" {
		if m := regexp.MustCompile(`^\[\]byte\("(.{4})"\)$`).FindStringSubmatch(wtoks[0].Arg); m != nil {
			wm = m[1]
		}
	}
	if wv == "" {
		for _, t := range wtoks {
			if t.Kind == "FIELD" {
				if m := regexp.MustCompile(`^(?:u?int(?:8|16|32|64)?\()?(\d+)\)?$`).FindStringSubmatch(t.Arg); m != nil {
					wv = m[1]
				}
				// a local variable holding the constant (whatever its name)
				if wv == "" {
					for obj, def := range k.Writer.Defs {
						if obj.Name() == strings.TrimPrefix(t.Arg, "&") {
							if tv, ok := w.Info.Types[def]; ok && tv.Value != nil {
								wv = tv.Value.ExactString()
							}
						}
					}
				}
				break
			}
		}
	}
	ast.Inspect(k.RDecl.Body, func(n ast.Node) bool {
		ifs, ok := n.(*ast.IfStmt)
		if !ok {
			return true
		}
		be, ok := ifs.Cond.(*ast.BinaryExpr)
		if !ok || be.Op != token.NEQ {
			return true
		}
		returnsErr := false
		for _, s := range ifs.Body.List {
			if rs, ok := s.(*ast.ReturnStmt); ok && len(rs.Results) > 0 && exprStr(rs.Results[len(rs.Results)-1]) != "nil" {
				returnsErr = true
			}
		}
		if !returnsErr {
			return true
		}
		l := exprStr(be.X)
		if l == "version" {
			if tv, ok := w.Info.Types[be.Y]; ok && tv.Value != nil {
				rv = tv.Value.ExactString()
			}
		}
		return true
	})
	if rv == "" {
		// whatever the variable is called: the first field decoded after the magic bytes, compared with a constant in a
		// rejecting condition
		vname := ""
		seenRaw := false
		for _, t := range flattenToks(k.Reader.Toks) {
			if t.Kind == "RAW" {
				seenRaw = true
				continue
			}
			if t.Kind == "FIELD" && seenRaw {
				vname = strings.TrimPrefix(t.Arg, "&")
				break
			}
		}
		if vname != "" && vname != "version" {
			ast.Inspect(k.RDecl.Body, func(n ast.Node) bool {
				ifs, ok := n.(*ast.IfStmt)
				if !ok || rv != "" {
					return true
				}
				be, ok := ifs.Cond.(*ast.BinaryExpr)
				if !ok || be.Op != token.NEQ || exprStr(be.X) != vname {
					return true
				}
				for _, st := range ifs.Body.List {
					if rs, ok := st.(*ast.ReturnStmt); ok && len(rs.Results) > 0 && exprStr(rs.Results[len(rs.Results)-1]) != "nil" {
						if tv, ok := w.Info.Types[be.Y]; ok && tv.Value != nil {
							rv = tv.Value.ExactString()
						}
					}
				}
				return true
			})
		}
	}
	// magic: the first raw buffer read is compared (string(buf) != "XXXX", !bytes.Equal(buf, []byte("XXXX")), buf != [4]byte{…})
	// in a condition whose body returns an error
	buf := ""
	for _, t := range flattenToks(k.Reader.Toks) {
		if t.Kind == "RAW" {
			buf = t.Arg
			break
		}
	}
	if buf != "" {
		ast.Inspect(k.RDecl.Body, func(n ast.Node) bool {
			ifs, ok := n.(*ast.IfStmt)
			if !ok || rm != "" {
				return true
			}
			names := []string{buf}
			for obj, def := range k.Reader.Defs {
				if identIn(exprStr(def), buf) {
					names = append(names, obj.Name())
				}
			}
			mentions := false
			for _, nm := range names {
				if identIn(exprStr(ifs.Cond), nm) {
					mentions = true
				}
			}
			if !mentions {
				return true
			}
			returnsErr := false
			for _, st := range ifs.Body.List {
				if rs, ok := st.(*ast.ReturnStmt); ok && len(rs.Results) > 0 && exprStr(rs.Results[len(rs.Results)-1]) != "nil" {
					returnsErr = true
				}
			}
			if !returnsErr {
				return true
			}
			// the rejection must be the inequality itself
			neq := false
			switch c := ifs.Cond.(type) {
			case *ast.BinaryExpr:
				neq = c.Op == token.NEQ
			case *ast.UnaryExpr:
				neq = c.Op == token.NOT
			}
			if !neq {
				return true
			}
			ast.Inspect(ifs.Cond, func(m ast.Node) bool {
				if e, ok := m.(ast.Expr); ok {
					if sv, ok := constStringOf(w.Info, e); ok && len(sv) == 4 {
						rm = sv
					}
				}
				if cl, ok := m.(*ast.CompositeLit); ok {
					sv := ""
					for _, el := range cl.Elts {
						if tv, ok := w.Info.Types[el]; ok && tv.Value != nil {
							if v, ok := constantInt(tv); ok {
								sv += string(rune(v))
							}
						}
					}
					if len(sv) == 4 {
						rm = sv
					}
				}
				return true
			})
			return true
		})
	}
	if rm == "" {
		rm = firstRejectedMagic(w, k)
	}
	return
}

// firstRejectedMagic: the first `X != "ABCD"` (or !bytes.Equal(X, []byte("ABCD"))) in the reader whose body returns an
// error: the buffer was read through a helper that returns it, so its name is not the one the raw token carries.
func firstRejectedMagic(w *World, k *serKind) string {
	rm := ""
	ast.Inspect(k.RDecl.Body, func(n ast.Node) bool {
		ifs, ok := n.(*ast.IfStmt)
		if !ok || rm != "" {
			return rm == ""
		}
		returnsErr := false
		for _, st := range ifs.Body.List {
			if rs, ok := st.(*ast.ReturnStmt); ok && len(rs.Results) > 0 && exprStr(rs.Results[len(rs.Results)-1]) != "nil" {
				returnsErr = true
			}
		}
		neq := false
		switch c := ifs.Cond.(type) {
		case *ast.BinaryExpr:
			neq = c.Op == token.NEQ
		case *ast.UnaryExpr:
			neq = c.Op == token.NOT
		}
		if !returnsErr || !neq {
			return true
		}
		ast.Inspect(ifs.Cond, func(m ast.Node) bool {
			if e, ok := m.(ast.Expr); ok && rm == "" {
				if sv, ok := constStringOf(w.Info, e); ok && len(sv) == 4 {
					rm = sv
				}
			}
			return true
		})
		return true
	})
	return rm
}

func constantInt(tv types.TypeAndValue) (int64, bool) {
	if tv.Value == nil {
		return 0, false
	}
	s := tv.Value.ExactString()
	var v int64
	for _, ch := range s {
		if ch < '0' || ch > '9' {
			return 0, false
		}
		v = v*10 + int64(ch-'0')
	}
	return v, true
}

// ruleReaderFlow: FMT6 — the io.Reader parameter is used only as the stream argument of binary.Read / io.ReadFull / nested ReadFrom.
func ruleReaderFlow(r *Run, rule string, k *serKind) {
	w := r.W
	side := k.Reader
	if side.IOParam == nil {
		r.Unres(rule, k.Name+":reader-param", "io.Reader parameter not found")
		return
	}
	bad := ""
	uses := 0
	var checkFlow func(body ast.Node, param types.Object, depth int)
	checkFlow = func(body ast.Node, param types.Object, depth int) {
		allowed := map[token.Pos]bool{}
		// plain aliases of the stream are the stream: their defining use is allowed, their own uses obey the same rule
		aliases := ioAliases(w.Info, body, param)
		isParam := func(obj types.Object) bool { return obj != nil && (obj == param || aliases[obj]) }
		ast.Inspect(body, func(n ast.Node) bool {
			switch x := n.(type) {
			case *ast.ValueSpec:
				for i, nm := range x.Names {
					if i < len(x.Values) && aliases[w.Info.Defs[nm]] {
						if id, ok := ast.Unparen(x.Values[i]).(*ast.Ident); ok {
							allowed[id.Pos()] = true
						}
					}
				}
			case *ast.AssignStmt:
				if x.Tok == token.DEFINE && len(x.Lhs) == len(x.Rhs) {
					for i, l := range x.Lhs {
						if lid, ok := l.(*ast.Ident); ok && aliases[w.Info.Defs[lid]] {
							if id, ok := ast.Unparen(x.Rhs[i]).(*ast.Ident); ok {
								allowed[id.Pos()] = true
							}
						}
					}
				}
				// `_ = alias` keeps the compiler quiet and is not a use of the stream
				if x.Tok == token.ASSIGN && len(x.Lhs) == 1 && len(x.Rhs) == 1 {
					if lid, ok := x.Lhs[0].(*ast.Ident); ok && lid.Name == "_" {
						if id, ok := x.Rhs[0].(*ast.Ident); ok {
							allowed[id.Pos()] = true
						}
					}
				}
			}
			return true
		})
		// a nil test of the stream consumes nothing
		ast.Inspect(body, func(n ast.Node) bool {
			if be, ok := n.(*ast.BinaryExpr); ok && (be.Op == token.EQL || be.Op == token.NEQ) {
				for _, pair := range [][2]ast.Expr{{be.X, be.Y}, {be.Y, be.X}} {
					id, isID := ast.Unparen(pair[0]).(*ast.Ident)
					other, isNil := ast.Unparen(pair[1]).(*ast.Ident)
					if isID && isNil && other.Name == "nil" && w.Info.Uses[other] == types.Universe.Lookup("nil") {
						allowed[id.Pos()] = true
					}
				}
			}
			return true
		})
		ast.Inspect(body, func(n ast.Node) bool {
			c, ok := n.(*ast.CallExpr)
			if !ok {
				return true
			}
			name := calleeOfExpr(w.Info, c)
			okCall := name == "encoding/binary.Read" || name == "io.ReadFull"
			if sel, ok := c.Fun.(*ast.SelectorExpr); ok && sel.Sel.Name == "ReadFrom" {
				okCall = true
			}
			if okCall && len(c.Args) > 0 {
				if id, ok := c.Args[0].(*ast.Ident); ok {
					allowed[id.Pos()] = true
				}
			}
			// handed on to a comet function: its parameter must satisfy the same rule
			var obj *types.Func
			switch f := c.Fun.(type) {
			case *ast.Ident:
				obj, _ = w.Info.Uses[f].(*types.Func)
			case *ast.SelectorExpr:
				obj, _ = w.Info.Uses[f.Sel].(*types.Func)
			}
			if obj != nil && obj.Pkg() == w.Types && depth < 3 && obj.Name() != "ReadFrom" {
				if sf := w.Prog.FuncValue(obj); sf != nil {
					if d := w.Decl(w.Name(sf)); d != nil && d.Body != nil {
						for i, a := range c.Args {
							id, ok := a.(*ast.Ident)
							if !ok || !isParam(w.Info.Uses[id]) {
								continue
							}
							j := 0
							for _, f := range d.Type.Params.List {
								for _, nm := range f.Names {
									if j == i {
										allowed[id.Pos()] = true
										checkFlow(d.Body, w.Info.Defs[nm], depth+1)
									}
									j++
								}
							}
						}
					}
				}
			}
			return true
		})
		ast.Inspect(body, func(n ast.Node) bool {
			id, ok := n.(*ast.Ident)
			if !ok || !isParam(w.Info.Uses[id]) {
				return true
			}
			uses++
			if !allowed[id.Pos()] {
				bad = w.Pos(id.Pos())
			}
			return true
		})
	}
	checkFlow(side.Decl.Body, side.IOParam, 0)
	r.Check(bad == "" && uses > 0, rule, k.Name+":reader-flow", w.Pos(side.Decl.Pos())+" (*"+k.Name+").ReadFrom",
		fmt.Sprintf("the reader parameter is used %d times, only as the stream of binary.Read / io.ReadFull / nested ReadFrom (exact consumption)", uses),
		"the reader parameter escapes at "+bad+" (wrapped / buffered / stored): bytes beyond this index's section may be consumed")
}

// ruleCommitAfterDecode: FMT8 — receiver state is assigned only after the last fallible step.
func ruleCommitAfterDecode(r *Run, rule string, k *serKind) {
	w := r.W
	side := k.Reader
	recv := side.RecvName
	var lastFallible token.Pos
	for _, c := range side.Calls {
		if c.Pos() > lastFallible {
			lastFallible = c.Pos()
		}
	}
	// any later `if err … return` (e.g. UnmarshalBinary) also counts as fallible
	ast.Inspect(side.Decl.Body, func(n ast.Node) bool {
		if ifs, ok := n.(*ast.IfStmt); ok && strings.Contains(exprStr(ifs.Cond), "!= nil") {
			for _, s := range ifs.Body.List {
				if rs, ok := s.(*ast.ReturnStmt); ok && len(rs.Results) > 0 && exprStr(rs.Results[len(rs.Results)-1]) != "nil" && ifs.Pos() > lastFallible {
					lastFallible = ifs.Pos()
				}
			}
		}
		return true
	})
	early := []string{}
	n := 0
	ast.Inspect(side.Decl.Body, func(node ast.Node) bool {
		switch x := node.(type) {
		case *ast.AssignStmt:
			for _, l := range x.Lhs {
				ls := exprStr(l)
				if strings.HasPrefix(ls, recv+".") {
					n++
					if x.Pos() < lastFallible {
						early = append(early, ls+" at "+w.Pos(x.Pos()))
					}
				}
			}
		case *ast.CallExpr:
			if sel, ok := x.Fun.(*ast.SelectorExpr); ok && strings.HasPrefix(exprStr(sel.X), recv+".") &&
				(sel.Sel.Name == "Store" || sel.Sel.Name == "UnmarshalBinary" || sel.Sel.Name == "Clear" || sel.Sel.Name == "Add") {
				n++
				if x.Pos() < lastFallible {
					early = append(early, exprStr(x.Fun)+" at "+w.Pos(x.Pos()))
				}
			}
		}
		return true
	})
	if k.Name == "IVFPQIndex" || k.Name == "hybridSearchIndex" {
		// the property deliberately leaves these two kinds out of the no-half-load clause: reported, not claimed
		r.Note(rule, k.Name+":commit-last", w.Pos(side.Decl.Pos())+" (*"+k.Name+").ReadFrom", fmt.Sprintf("%d receiver assignments, early ones: %v (kind excluded by the property)", n, early))
		return
	}
	r.Check(len(early) == 0 && n > 0, rule, k.Name+":commit-last", w.Pos(side.Decl.Pos())+" (*"+k.Name+").ReadFrom",
		fmt.Sprintf("%d receiver assignments, all after the last fallible step", n), "receiver state is modified before decoding is complete: "+strings.Join(early, ", "))
}

// ruleWriteToFlushFirst: WriteTo calls the index's Flush, and that call precedes the acquisition of the read lock;
// nothing below the read-locked part writes receiver state.
func ruleWriteToFlushFirst(r *Run, rule string, kinds []*serKind) {
	w := r.W
	r.Doc(rule, "removed documents end up in the stream, or WriteTo self-deadlocks / mutates the source")
	for _, k := range kinds {
		fn := w.Method(k.T, "WriteTo")
		if fn == nil {
			continue
		}
		name := w.Name(fn)
		site := w.Pos(fn.Pos()) + " " + name
		c := NewCanon(w)
		var flush, rlock ssa.Instruction
		allInstrs(fn, func(in ssa.Instruction) {
			call, ok := in.(*ssa.Call)
			if !ok {
				return
			}
			n := calleeName(call.Common())
			if g := staticCallee(call.Common()); g != nil && g.Name() == "Flush" && len(call.Call.Args) > 0 && call.Call.Args[0] == ssa.Value(fn.Params[0]) {
				flush = in
			}
			if (n == "(*sync.RWMutex).RLock" || n == "(*sync.RWMutex).Lock") && c.S(call.Call.Args[0]) == "P0.mu" && rlock == nil {
				rlock = in
			}
		})
		r.Check(flush != nil, rule, k.Name+":flush", site, "WriteTo flushes soft deletes first", "WriteTo does not call Flush: soft-deleted documents are serialised")
		if flush != nil && rlock != nil {
			// holding the lock across the Flush is a problem only when that Flush takes the same mutex itself
			flushFn := staticCallee(flush.(*ssa.Call).Common())
			reacquires := false
			seenF := map[*ssa.Function]bool{}
			var visit func(g *ssa.Function, depth int)
			visit = func(g *ssa.Function, depth int) {
				if g == nil || seenF[g] || depth > 3 {
					return
				}
				seenF[g] = true
				cg := NewCanon(w)
				allInstrs(g, func(in ssa.Instruction) {
					call, ok := in.(ssa.CallInstruction)
					if !ok {
						return
					}
					n := calleeName(call.Common())
					if (n == "(*sync.RWMutex).RLock" || n == "(*sync.RWMutex).Lock") && cg.S(call.Common().Args[0]) == "P0.mu" {
						reacquires = true
					}
					if h := staticCallee(call.Common()); h != nil && h.Pkg == w.SPkg && len(call.Common().Args) > 0 && cg.S(call.Common().Args[0]) == "P0" {
						visit(h, depth+1)
					}
				})
			}
			visit(flushFn, 0)
			r.Check(domInstr(flush, rlock) || !reacquires, rule, k.Name+":flush-before-lock", site, "Flush precedes the read lock (or does not take this index's own mutex)", "Flush is called while the index lock is held (re-entrant acquisition deadlocks)")
		}
		// flush error checked
		if flush != nil {
			checked := false
			for _, ref := range *flush.(*ssa.Call).Referrers() {
				if _, ok := ref.(*ssa.BinOp); ok {
					checked = true
				}
			}
			r.Check(checked, rule, k.Name+":flush-error", site, "Flush error is tested", "Flush error is ignored")
		}
		// read-only below the lock
		writes := stateWrites(w, fn, map[string]bool{"mu": true})
		ws := ""
		for _, wr := range writes {
			ws += " " + w.InstrPos(wr) + ":" + wr.String()
		}
		r.Check(len(writes) == 0, rule, k.Name+":read-only", site, "WriteTo does not write receiver state", fmt.Sprintf("WriteTo writes receiver state (%d stores:%s)", len(writes), ws))
	}
}

// ruleHybridPartOrder: the hybrid writer emits hybrid, vector, text, metadata to its four writers; the reader consumes
// the sub-indexes in the same order from one stream; the segment loader concatenates the files in that order.
func ruleHybridPartOrder(r *Run, rule string) {
	w := r.W
	r.Doc(rule, "segment parts are decoded in another order than they were written")
	hk, err := hybridKindOf(w)
	if err != nil {
		r.Unres(rule, "hybrid", err.Error())
		return
	}
	wf, rf := w.Method(hk.IndexT, "WriteTo"), w.Method(hk.IndexT, "ReadFrom")
	if wf == nil || rf == nil {
		r.Unres(rule, "hybrid:methods", "hybrid WriteTo/ReadFrom not found")
		return
	}
	r.Analysed(w.Name(wf), w.Name(rf))
	order := func(fn *ssa.Function, m string) []string {
		type ent struct {
			pos token.Pos
			s   string
		}
		var ents []ent
		c := NewCanon(w)
		for _, call := range invokesOf(fn, m) {
			ents = append(ents, ent{call.Pos(), strings.TrimPrefix(c.S(call.Call.Value), "P0.") + "→" + c.S(call.Call.Args[0])})
		}
		// through an extracted helper: helper(stream, sub-index, …) whose body invokes m on its parameter
		for _, cs := range callsIn(fn, func(cc *ssa.CallCommon) bool {
			g := staticCallee(cc)
			return g != nil && g.Pkg == w.SPkg && len(invokesOf(g, m)) > 0
		}) {
			g := staticCallee(cs.Common())
			ch := NewCanon(w)
			for _, inv := range invokesOf(g, m) {
				sub, okS := translatePath(c, ch.S(inv.Call.Value), cs.Common().Args, nil)
				strm, okT := translatePath(c, ch.S(inv.Call.Args[0]), cs.Common().Args, nil)
				if okS && okT {
					ents = append(ents, ent{cs.Pos(), strings.TrimPrefix(sub, "P0.") + "→" + strm})
				}
			}
		}
		sort.Slice(ents, func(i, j int) bool { return ents[i].pos < ents[j].pos })
		var out []string
		for _, e := range ents {
			out = append(out, e.s)
		}
		return out
	}
	wo, ro := order(wf, "WriteTo"), order(rf, "ReadFrom")
	ps := func(x, pre, suf string) bool { return strings.HasPrefix(x, pre) && strings.HasSuffix(x, suf) }
	okW := len(wo) == 3 && ps(wo[0], "vectorIndex", "→P2") && ps(wo[1], "textIndex", "→P3") && ps(wo[2], "metadataIndex", "→P4")
	r.Check(okW, rule, "hybrid:writer-order", w.Pos(wf.Pos())+" "+w.Name(wf), "vector→2nd writer, text→3rd, metadata→4th", fmt.Sprintf("sub-index writes are %v", wo))
	okR := len(ro) == 3 && ps(ro[0], "vectorIndex", "→P1") && ps(ro[1], "textIndex", "→P1") && ps(ro[2], "metadataIndex", "→P1")
	r.Check(okR, rule, "hybrid:reader-order", w.Pos(rf.Pos())+" "+w.Name(rf), "vector, text, metadata consumed in this order from the one reader", fmt.Sprintf("sub-index reads are %v", ro))
	// the segment loader: io.MultiReader(hybrid, vector, text, metadata)
	for _, fn := range w.Funcs {
		for _, call := range callsIn(fn, func(cc *ssa.CallCommon) bool { return calleeName(cc) == "io.MultiReader" }) {
			c := NewCanon(w)
			arg := c.S(call.Common().Args[0])
			// the readers slice is built by appends in order
			pos := func(s string) int { return strings.Index(strings.ToLower(arg), s) }
			_ = pos
			site := w.InstrPos(call) + " " + w.Name(fn)
			names := multiReaderOrder(w, fn, call)
			want := "hybrid,vector,text,metadata"
			r.Check(strings.Join(names, ",") == want, rule, "segment:multireader-order:"+w.Name(fn), site, "segment parts concatenated as "+want, "segment parts concatenated as "+strings.Join(names, ","))
			r.Analysed(w.Name(fn))
		}
	}
}

// multiReaderOrder recovers the order in which gzip readers are appended to the slice passed to io.MultiReader.
func multiReaderOrder(w *World, fn *ssa.Function, call ssa.CallInstruction) []string {
	var appends []*ssa.Call
	allInstrs(fn, func(in ssa.Instruction) {
		if c, ok := isBuiltinCall(in, "append"); ok && strings.Contains(tstr(c.Type(), nil), "io.Reader") {
			appends = append(appends, c)
		}
	})
	sort.Slice(appends, func(i, j int) bool { return appends[i].Pos() < appends[j].Pos() })
	c := NewCanon(w)
	var out []string
	classify := func(s string) string {
		ls := strings.ToLower(s)
		for _, n := range []string{"hybrid", "vector", "text", "metadata"} {
			if strings.Contains(ls, n) {
				return n
			}
		}
		return "?" + s
	}
	// initial literal elements
	if len(call.Common().Args) > 0 {
		s := c.S(call.Common().Args[0])
		_ = s
	}
	for _, a := range appends {
		elems, ok := appendedElems(a)
		if !ok {
			continue
		}
		for _, e := range elems {
			// the current element of a range loop over a literal list of the readers: one entry per element, in order
			if lits := literalListAtRange(e); len(lits) > 0 {
				for _, x := range lits {
					out = append(out, classify(valueNameHint(w, fn, x)))
				}
				continue
			}
			lastOpenPath = nil
			hint := valueNameHint(w, fn, e)
			// opened in a loop over a literal table of the parts: one entry per row, in the table's order
			if lastOpenPath != nil {
				if col := tableColumn(lastOpenPath); len(col) > 0 {
					for _, x := range col {
						out = append(out, classify(c.S(x)))
					}
					continue
				}
			}
			out = append(out, classify(hint))
		}
	}
	// slice literal start: []io.Reader{hybridGz}
	allInstrs(fn, func(in ssa.Instruction) {
		if a, ok := in.(*ssa.Alloc); ok && a.Comment == "slicelit" {
			for _, ref := range *a.Referrers() {
				if ia, ok := ref.(*ssa.IndexAddr); ok {
					for _, rr := range *ia.Referrers() {
						if st, ok := rr.(*ssa.Store); ok && strings.Contains(tstr(st.Val.Type(), nil), "io.Reader") {
							out = append([]string{classify(valueNameHint(w, fn, st.Val))}, out...)
						}
					}
				}
			}
		}
	})
	return out
}

// lastOpenPath: the path operand of the os.Open call valueNameHint last stopped at.
var lastOpenPath ssa.Value

// tableColumn: v is the field f of the current element of a range loop over a literal table ([]struct{…}{{…}, {…}}):
// returns the values of f in the table's rows, in order.
func tableColumn(v ssa.Value) []ssa.Value {
	var ia *ssa.IndexAddr
	f := -1
	switch x := v.(type) {
	case *ssa.Field:
		if ld, ok := x.X.(*ssa.UnOp); ok && ld.Op == token.MUL {
			ia, _ = ld.X.(*ssa.IndexAddr)
		}
		f = x.Field
	case *ssa.UnOp:
		if fa, ok := x.X.(*ssa.FieldAddr); ok && x.Op == token.MUL {
			ia, _ = fa.X.(*ssa.IndexAddr)
			f = fa.Field
			// the loop variable is a copy of the row: component := table[i]
			if a, isA := fa.X.(*ssa.Alloc); isA {
				if sv := singleStore(a); sv != nil {
					if ld, ok := sv.(*ssa.UnOp); ok && ld.Op == token.MUL {
						ia, _ = ld.X.(*ssa.IndexAddr)
					}
				}
			}
		}
	}
	if ia == nil || f < 0 || !isRangeIndex(ia.Index) {
		return nil
	}
	var arr *ssa.Alloc
	switch x := ia.X.(type) {
	case *ssa.Slice:
		arr, _ = x.X.(*ssa.Alloc)
	case *ssa.Alloc:
		arr = x
	}
	if arr == nil || arr.Comment != "slicelit" && arr.Comment != "complit" {
		return nil
	}
	rows := map[int64]ssa.Value{}
	for _, ref := range *arr.Referrers() {
		ea, ok := ref.(*ssa.IndexAddr)
		if !ok {
			continue
		}
		k, isK := ea.Index.(*ssa.Const)
		if !isK {
			if ea == ia {
				continue
			}
			return nil
		}
		for _, rr := range *ea.Referrers() {
			if fa, ok := rr.(*ssa.FieldAddr); ok && fa.Field == f {
				for _, r3 := range *fa.Referrers() {
					if st, ok := r3.(*ssa.Store); ok && st.Addr == ssa.Value(fa) {
						rows[k.Int64()] = st.Val
					}
				}
			}
			// the row is built in a temporary and copied in: *row = *tmp
			if st, ok := rr.(*ssa.Store); ok && st.Addr == ssa.Value(ea) {
				if ld, ok := st.Val.(*ssa.UnOp); ok && ld.Op == token.MUL {
					if tmp, ok := ld.X.(*ssa.Alloc); ok {
						for _, r3 := range *tmp.Referrers() {
							if fa, ok := r3.(*ssa.FieldAddr); ok && fa.Field == f {
								for _, r4 := range *fa.Referrers() {
									if st2, ok := r4.(*ssa.Store); ok && st2.Addr == ssa.Value(fa) {
										rows[k.Int64()] = st2.Val
									}
								}
							}
						}
					}
				}
			}
		}
	}
	var out []ssa.Value
	for i := int64(0); i < int64(len(rows)); i++ {
		x, ok := rows[i]
		if !ok {
			return nil
		}
		out = append(out, x)
	}
	return out
}

// valueNameHint: the source name of the variable a value was bound to (debug-free heuristic: look for the
// os.Open path argument's canonical string flowing into the gzip reader).
func valueNameHint(w *World, fn *ssa.Function, v ssa.Value) string {
	c := NewCanon(w)
	seen := map[ssa.Value]bool{}
	out := ""
	var rec func(v ssa.Value, d int)
	rec = func(v ssa.Value, d int) {
		if v == nil || seen[v] || d > 10 || out != "" {
			return
		}
		seen[v] = true
		switch x := v.(type) {
		case *ssa.Phi:
			for _, e := range x.Edges {
				rec(e, d+1)
			}
		case *ssa.MakeInterface:
			rec(x.X, d+1)
		case *ssa.ChangeInterface:
			rec(x.X, d+1)
		case *ssa.Extract:
			rec(x.Tuple, d+1)
		case *ssa.UnOp:
			if x.Op == token.MUL {
				rec(x.X, d+1)
			}
		case *ssa.Alloc:
			// a wrapper struct built around the stream (&countingReader{r: file}): follow what was stored into it
			for _, ref := range *x.Referrers() {
				switch y := ref.(type) {
				case *ssa.Store:
					if y.Addr == ssa.Value(x) {
						rec(y.Val, d+1)
					}
				case *ssa.FieldAddr:
					for _, r2 := range *y.Referrers() {
						if st, ok := r2.(*ssa.Store); ok && st.Addr == ssa.Value(y) {
							rec(st.Val, d+1)
						}
					}
				}
			}
		case *ssa.Call:
			switch calleeName(x.Common()) {
			case "os.Open", "os.OpenFile", "os.Create":
				out = c.S(x.Call.Args[0])
				lastOpenPath = x.Call.Args[0]
			default:
				for _, a := range x.Call.Args {
					rec(a, d+1)
				}
			}
		}
	}
	rec(v, 0)
	if out == "" {
		return c.S(v)
	}
	return out
}

// ruleImplicitInvariants re-checks the invariants behind the implicit loop bounds of implicitPairs instead of trusting them.
func ruleImplicitInvariants(r *Run, rule string) {
	w := r.W
	r.Doc(rule, "an implicit loop bound of the stream no longer matches what the writer emits: reload reads garbage")
	ks, err := vecKinds(w)
	if err != nil {
		r.Unres(rule, "inv:kinds", err.Error())
		return
	}
	for _, k := range ks {
		// (a) stored vectors have exactly dim components: Add rejects any other length before it stores
		fn := k.Add
		c := NewCanon(w)
		var dimIf *ssa.If
		allInstrs(fn, func(in ssa.Instruction) {
			iff, ok := in.(*ssa.If)
			if !ok {
				return
			}
			bo, ok := iff.Cond.(*ssa.BinOp)
			if !ok || bo.Op != token.NEQ {
				return
			}
			l, rr := c.S(bo.X), c.S(bo.Y)
			if (l == "len(get:vector(P1))" && rr == "P0.dim") || (rr == "len(get:vector(P1))" && l == "P0.dim") {
				if ret, ok := iff.Block().Succs[0].Instrs[len(iff.Block().Succs[0].Instrs)-1].(*ssa.Return); ok && classifyErr(ret) == ErrNonNil {
					dimIf = iff
				}
			}
		})
		okDom := dimIf != nil
		if dimIf != nil {
			for _, wr := range stateWrites(w, fn, map[string]bool{"mu": true, "nextID": true}) {
				if !domInstr(dimIf, wr) {
					okDom = false
				}
			}
		}
		r.Check(okDom, rule, "inv:"+k.Name+":dim", w.Pos(fn.Pos())+" "+w.Name(fn), "Add rejects len(vector) != dim before any store (stored vectors have exactly dim components)", "Add can store a vector whose length differs from dim: the reader's implicit bound idx.dim is wrong")
	}
	// (b) trained ⇒ len(centroids) == nlist
	for _, kn := range []string{"ivf", "ivfpq"} {
		k, err := kindByName(w, kn)
		if err != nil {
			continue
		}
		tr := w.Method(k.IndexT, "Train")
		if tr == nil {
			continue
		}
		c := NewCanon(w)
		guard, kArg := false, false
		allInstrs(tr, func(in ssa.Instruction) {
			if bo, ok := in.(*ssa.BinOp); ok {
				cmp, neg, ok := normCmp(c, bo)
				if ok && !neg && cmp.Op == token.LSS && cmp.L == "len(P1)" && (cmp.R == "P0.nlist" || strings.HasPrefix(cmp.R, "(P0.nlist*c(")) {
					guard = true
				}
			}
			if call, ok := in.(*ssa.Call); ok && strings.HasSuffix(calleeName(call.Common()), ".KMeans") && c.S(call.Call.Args[1]) == "P0.nlist" {
				kArg = true
			}
		})
		r.Check(guard && kArg, rule, "inv:"+kn+":centroids", w.Pos(tr.Pos())+" "+w.Name(tr), "Train demands at least nlist vectors and asks k-means for nlist centroids (k-means returns min(k,n)) ⇒ len(centroids) == nlist when trained", fmt.Sprintf("size guard=%v, K=nlist=%v", guard, kArg))
	}
	// (c) codes have M bytes
	for _, enc := range annEncodeFns(w) {
		// only the encoders themselves ([]uint8 result), not the codeword-search helpers listed with them
		if enc.Signature.Results().Len() != 1 || enc.Signature.Results().At(0).Type().String() != "[]uint8" {
			continue
		}
		c := NewCanon(w)
		ok := false
		for _, ret := range returnsOf(enc) {
			if mk, isMk := ret.Results[0].(*ssa.MakeSlice); isMk && c.S(mk.Len) == "P0.M" {
				ok = true
			}
		}
		r.Check(ok, rule, "inv:code-length:"+w.Name(enc), w.Pos(enc.Pos())+" "+w.Name(enc), "a code is make([]uint8, M)", "code length is not M")
	}
}

// astConstInt: the integer value of a constant expression (literal, named constant, conversion of one).
func astConstInt(w *World, e ast.Expr) (int64, bool) {
	tv, ok := w.Info.Types[e]
	if !ok || tv.Value == nil {
		return 0, false
	}
	c := constant.ToInt(tv.Value)
	if c.Kind() != constant.Int {
		return 0, false
	}
	return constant.Int64Val(c)
}

// literalListAtRange: v is L[i] for the index i of a range loop over a literal array / slice L = {a, b, c}; returns a, b, c.
func literalListAtRange(v ssa.Value) []ssa.Value {
	for {
		if mi, ok := v.(*ssa.MakeInterface); ok {
			v = mi.X
			continue
		}
		if ci, ok := v.(*ssa.ChangeInterface); ok {
			v = ci.X
			continue
		}
		break
	}
	var arr *ssa.Alloc
	var ia *ssa.IndexAddr
	if ix, isIx := v.(*ssa.Index); isIx {
		// range over an array value: the whole array is loaded first
		if !isRangeIndex(ix.Index) {
			return nil
		}
		if ald, ok := ix.X.(*ssa.UnOp); ok && ald.Op == token.MUL {
			arr, _ = ald.X.(*ssa.Alloc)
		}
	} else {
		ld, ok := v.(*ssa.UnOp)
		if !ok || ld.Op != token.MUL {
			return nil
		}
		ia, ok = ld.X.(*ssa.IndexAddr)
		if !ok || !isRangeIndex(ia.Index) {
			return nil
		}
		switch x := ia.X.(type) {
		case *ssa.Alloc:
			arr = x
		case *ssa.Slice:
			arr, _ = x.X.(*ssa.Alloc)
		}
	}
	if arr == nil {
		return nil
	}
	rows := map[int64]ssa.Value{}
	for _, ref := range *arr.Referrers() {
		ea, ok := ref.(*ssa.IndexAddr)
		if !ok || ea == ia {
			continue
		}
		k, isK := ea.Index.(*ssa.Const)
		if !isK {
			return nil
		}
		for _, rr := range *ea.Referrers() {
			if st, ok := rr.(*ssa.Store); ok && st.Addr == ssa.Value(ea) {
				rows[k.Int64()] = st.Val
			}
		}
	}
	var out []ssa.Value
	for i := int64(0); i < int64(len(rows)); i++ {
		x, ok := rows[i]
		if !ok {
			return nil
		}
		out = append(out, x)
	}
	return out
}

// observationalCounter: every value loaded from the atomic field typeName.field only flows into results, local snapshot
// structs and formatting calls — never into a branch, an index expression, a store into shared state or a call of a comet
// function. Such a counter cannot influence what the index answers.
func observationalCounter(w *World, typeName, field string) bool {
	ok := true
	loads := 0
	for _, fn := range w.Funcs {
		allInstrs(fn, func(in ssa.Instruction) {
			call, isCall := in.(*ssa.Call)
			if !isCall || call.Call.IsInvoke() || len(call.Call.Args) == 0 {
				return
			}
			n := calleeName(call.Common())
			if !strings.HasPrefix(n, "(*sync/atomic.") {
				return
			}
			fa, isFA := call.Call.Args[0].(*ssa.FieldAddr)
			if !isFA || namedTypeName(fa.X.Type()) != typeName || fieldName(fa.X.Type(), fa.Field) != field {
				return
			}
			if strings.HasSuffix(n, ").Add") || strings.HasSuffix(n, ").Store") {
				// the value returned by Add is a read too
				if call.Referrers() == nil || len(*call.Referrers()) == 0 {
					return
				}
			}
			loads++
			seen := map[ssa.Value]bool{}
			var flow func(v ssa.Value, depth int)
			flow = func(v ssa.Value, depth int) {
				if seen[v] || !ok || v.Referrers() == nil {
					return
				}
				seen[v] = true
				if depth > 12 {
					ok = false
					return
				}
				for _, ref := range *v.Referrers() {
					switch x := ref.(type) {
					case *ssa.Return, *ssa.DebugRef:
					case *ssa.Convert:
						flow(x, depth+1)
					case *ssa.ChangeType:
						flow(x, depth+1)
					case *ssa.BinOp:
						flow(x, depth+1)
					case *ssa.Phi:
						flow(x, depth+1)
					case *ssa.MakeInterface:
						flow(x, depth+1)
					case *ssa.Store:
						if x.Val != v || !isLocalCell(x.Addr) && !localStructField(x.Addr) {
							ok = false
						}
					case *ssa.Call:
						cn := calleeName(x.Common())
						if !strings.HasPrefix(cn, "fmt.") && !strings.HasPrefix(cn, "(*strings.Builder)") {
							ok = false
						}
					default:
						ok = false
					}
				}
			}
			flow(call, 0)
		})
	}
	return ok && loads >= 0
}

// localStructField: addr is a field (or element) of a struct / array allocated in this function (a snapshot being built).
func localStructField(addr ssa.Value) bool {
	for d := 0; d < 6; d++ {
		switch x := addr.(type) {
		case *ssa.FieldAddr:
			addr = x.X
		case *ssa.IndexAddr:
			addr = x.X
		case *ssa.Alloc:
			return true
		default:
			return false
		}
	}
	return false
}

// errNilTest: cond is exactly `v != nil` for a variable v of type error; returns v's object.
func errNilTest(info *types.Info, cond ast.Expr) types.Object {
	be, ok := ast.Unparen(cond).(*ast.BinaryExpr)
	if !ok || be.Op != token.NEQ {
		return nil
	}
	x, y := ast.Unparen(be.X), ast.Unparen(be.Y)
	if id, isId := x.(*ast.Ident); isId && id.Name == "nil" {
		x, y = y, x
	}
	if id, isId := y.(*ast.Ident); !isId || id.Name != "nil" {
		return nil
	}
	id, ok := x.(*ast.Ident)
	if !ok {
		return nil
	}
	obj := info.Uses[id]
	if obj == nil {
		obj = info.Defs[id]
	}
	if obj == nil || !isErrorType(obj.Type()) {
		return nil
	}
	return obj
}

func isErrorType(t types.Type) bool {
	return t != nil && types.Identical(t, types.Universe.Lookup("error").Type())
}

// errObjsOf: the error-typed variables an assignment defines or assigns.
func errObjsOf(info *types.Info, as *ast.AssignStmt) map[types.Object]bool {
	out := map[types.Object]bool{}
	for _, l := range as.Lhs {
		id, ok := l.(*ast.Ident)
		if !ok || id.Name == "_" {
			continue
		}
		obj := info.Defs[id]
		if obj == nil {
			obj = info.Uses[id]
		}
		if obj != nil && isErrorType(obj.Type()) {
			out[obj] = true
		}
	}
	return out
}

package main

// table.go — generic boolean guard tables over the paths of one loop iteration or one function region.

import (
	"fmt"
	"go/token"
	"sort"
	"strings"

	"golang.org/x/tools/go/ssa"
)

// stripNot peels boolean negations.
func stripNot(v ssa.Value) (ssa.Value, bool) {
	neg := false
	for {
		u, ok := v.(*ssa.UnOp)
		if !ok || u.Op != token.NOT {
			return v, neg
		}
		neg = !neg
		v = u.X
	}
}

type pathRow struct {
	P        *Path
	Atoms    map[string]bool // atom -> value on this path (only atoms the path decided)
	Unknown  int             // number of decisions on unrecognised conditions
	Conflict bool            // the path decides one atom both ways: infeasible
}

// classifyFn maps a (negation-stripped) branch condition to an atom name ("" = unrecognised).
// If the condition is the negation of the atom, it returns inverted=true.
type classifyFn func(cond ssa.Value) (atom string, inverted bool)

// iterationPaths enumerates the feasible paths of one iteration of loop (header → header / loop exit / return),
// dropping the path that leaves at the header without entering the body.
func iterationPaths(loop *Loop, classify classifyFn) ([]pathRow, bool) {
	paths, trunc := enumPaths(loop.Header, walkCfg{
		Stop:      func(b *ssa.BasicBlock) bool { return b == loop.Header || !loop.Blocks[b] },
		MaxVisits: 2, MaxPaths: 8000,
	})
	var rows []pathRow
	for _, p := range paths {
		if p.End == EndCycle {
			continue
		}
		if p.End == EndStop && len(p.Blocks) == 2 && !loop.Blocks[p.Blocks[1]] {
			continue
		}
		if !p.Feasible() {
			continue
		}
		if row := classifyPath(p, classify); !row.Conflict {
			rows = append(rows, row)
		}
	}
	return rows, trunc
}

// regionPaths enumerates feasible paths from start until stop(b) holds or the function returns.
func regionPaths(start *ssa.BasicBlock, stop func(*ssa.BasicBlock) bool, classify classifyFn, maxVisits int) ([]pathRow, bool) {
	paths, trunc := enumPaths(start, walkCfg{Stop: stop, MaxVisits: maxVisits, MaxPaths: 20000})
	var rows []pathRow
	for _, p := range paths {
		if p.End == EndCycle || !p.Feasible() {
			continue
		}
		if row := classifyPath(p, classify); !row.Conflict {
			rows = append(rows, row)
		}
	}
	return rows, trunc
}

func classifyPath(p *Path, classify classifyFn) pathRow {
	row := pathRow{P: p, Atoms: map[string]bool{}}
	for _, d := range p.Decisions {
		cond, neg := stripNot(d.Cond)
		if f := forwardLocalLoad(cond); f != cond {
			var n2 bool
			cond, n2 = stripNot(f)
			neg = neg != n2
		}
		// a branch on a boolean phi (`flag := a > b` on one arm, `a < b` on the other): use the value selected on this path
		for i := 0; i < 3; i++ {
			phi, ok := cond.(*ssa.Phi)
			if !ok {
				break
			}
			e := p.PhiEdgeAt(phi, d.At)
			if e == nil {
				break
			}
			if _, isConst := e.(*ssa.Const); isConst {
				break
			}
			var n2 bool
			cond, n2 = stripNot(e)
			neg = neg != n2
		}
		name, inv := classify(cond)
		if name == "" {
			row.Unknown++
			continue
		}
		val := d.Taken != (neg != inv)
		if prev, seen := row.Atoms[name]; seen && prev != val {
			row.Conflict = true
		}
		row.Atoms[name] = val
	}
	return row
}

// tableCheck evaluates, for every assignment of atoms, the outcomes of the consistent paths and compares
// them with want(assignment). outcome(row) is the observed behaviour of a path (e.g. "admit"/"skip").
// It returns human-readable mismatches.
func tableCheck(atoms []string, rows []pathRow, outcome func(pathRow) string, want func(map[string]bool) string) (bad []string, states int) {
	n := len(atoms)
	for mask := 0; mask < 1<<n; mask++ {
		asg := map[string]bool{}
		for i, a := range atoms {
			asg[a] = mask&(1<<i) != 0
		}
		w := want(asg)
		if w == "-" {
			continue // state excluded by the specification
		}
		states++
		outs := map[string]int{}
		for _, r := range rows {
			ok := true
			for a, v := range r.Atoms {
				if av, has := asg[a]; has && av != v {
					ok = false
					break
				}
			}
			if ok {
				outs[outcome(r)]++
			}
		}
		var keys []string
		for k := range outs {
			keys = append(keys, k)
		}
		sort.Strings(keys)
		st := asgString(atoms, asg)
		switch {
		case len(keys) == 0:
			bad = append(bad, st+": no path")
		case len(keys) > 1 && allAccepted(w, keys):
			// several observably equal outcomes, each allowed in this state
		case len(keys) > 1:
			bad = append(bad, st+": outcome depends on a condition the rule does not recognise ("+strings.Join(keys, "/")+")")
		case !wantAccepts(w, keys[0]):
			bad = append(bad, fmt.Sprintf("%s: %s, specification says %s", st, keys[0], w))
		}
	}
	return bad, states
}

// wantAccepts: a specification cell "a|b" accepts either outcome (observably equal in that state).
func wantAccepts(want, got string) bool {
	for _, alt := range strings.Split(want, "|") {
		if alt == got {
			return true
		}
	}
	return false
}

func allAccepted(want string, keys []string) bool {
	if !strings.Contains(want, "|") {
		return false
	}
	for _, k := range keys {
		if !wantAccepts(want, k) {
			return false
		}
	}
	return true
}

func asgString(atoms []string, asg map[string]bool) string {
	var parts []string
	for _, a := range atoms {
		v := 0
		if asg[a] {
			v = 1
		}
		parts = append(parts, fmt.Sprintf("%s=%d", a, v))
	}
	return strings.Join(parts, " ")
}

// mapUpdatesOf lists the MapUpdate instructions of fn.
func mapUpdatesOf(fn *ssa.Function) []*ssa.MapUpdate {
	var out []*ssa.MapUpdate
	allInstrs(fn, func(in ssa.Instruction) {
		if mu, ok := in.(*ssa.MapUpdate); ok {
			out = append(out, mu)
		}
	})
	return out
}

func truncList(bad []string, n int) string {
	if len(bad) > n {
		bad = append(append([]string(nil), bad[:n]...), fmt.Sprintf("… %d more", len(bad)-n))
	}
	return strings.Join(bad, " | ")
}

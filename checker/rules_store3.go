package main

// rules_store3.go — freeze handshake (C08.FROZEN / C11.LCK2) and parameter forwarding of the store search.

import (
	"fmt"
	"go/token"
	"go/types"
	"strings"

	"golang.org/x/tools/go/ssa"
)

// lockCallsOn lists Lock/RLock/Unlock/RUnlock calls (incl. deferred) on the mutex with canonical address mu.
func lockCallsOn(w *World, fn *ssa.Function, mu string) (locks, unlocks []ssa.Instruction, deferredUnlock bool) {
	c := NewCanon(w)
	allInstrs(fn, func(in ssa.Instruction) {
		ci, ok := in.(ssa.CallInstruction)
		if !ok || len(ci.Common().Args) == 0 || c.S(ci.Common().Args[0]) != mu {
			return
		}
		switch calleeName(ci.Common()) {
		case "(*sync.RWMutex).Lock", "(*sync.RWMutex).RLock", "(*sync.Mutex).Lock":
			locks = append(locks, in)
		case "(*sync.RWMutex).Unlock", "(*sync.RWMutex).RUnlock", "(*sync.Mutex).Unlock":
			if _, isDefer := in.(*ssa.Defer); isDefer {
				deferredUnlock = true
			} else {
				unlocks = append(unlocks, in)
			}
		}
	})
	return
}

// heldAt: the mutex is held at instruction at — a lock call dominates it and no explicit unlock lies between.
func heldAt(fn *ssa.Function, locks, unlocks []ssa.Instruction, at ssa.Instruction) bool {
	for _, l := range locks {
		if !domInstr(l, at) {
			continue
		}
		released := false
		for _, u := range unlocks {
			if domInstr(l, u) && reachAvoid(fn, u, func(in ssa.Instruction) bool { return in == at }, func(in ssa.Instruction) bool { return in == l }) != nil {
				released = true
			}
		}
		if !released {
			return true
		}
	}
	return false
}

func ruleFreezeHandshake(r *Run, rule string) {
	w := r.W
	r.Doc(rule, "a write lands on a memtable after its serialisation started (lost when the memtable is dropped), or an Add fails merely because of a concurrent rotation")
	// H1: in every memtable method that writes the index, the frozen test and the write are in one exclusive section
	for _, m := range []string{"(*memtable).add", "(*memtable).addWithID", "(*memtable).remove"} {
		fn := w.Fn(m)
		if fn == nil {
			r.Unres(rule, "h1:"+m, "not found")
			continue
		}
		r.Analysed(m)
		c := NewCanon(w)
		locks, unlocks, _ := lockCallsOn(w, fn, "P0.mu")
		var test *ssa.If
		var write ssa.Instruction
		allInstrs(fn, func(in ssa.Instruction) {
			if iff, ok := in.(*ssa.If); ok && strings.Contains(c.S(iff.Cond), "atomic.Bool).Load(P0.frozen)") {
				test = iff
			}
			if call, ok := in.(*ssa.Call); ok && call.Call.IsInvoke() && c.S(call.Call.Value) == "P0.index" {
				switch call.Call.Method.Name() {
				case "Add", "AddWithID", "Remove":
					write = in
				}
			}
		})
		site := w.Pos(fn.Pos()) + " " + m
		if test == nil || write == nil {
			r.Bad(rule, "h1:"+m, site, "frozen test or index write not found")
			continue
		}
		exclusive := false
		for _, l := range locks {
			if calleeName(l.(ssa.CallInstruction).Common()) == "(*sync.RWMutex).Lock" {
				exclusive = true
			}
		}
		ok := exclusive && heldAt(fn, locks, unlocks, test) && heldAt(fn, locks, unlocks, write) && domInstr(test, write)
		// the frozen outcome returns an error without writing
		t := test.Block().Succs[0]
		okErr := false
		if ret, isRet := t.Instrs[len(t.Instrs)-1].(*ssa.Return); isRet && classifyErr(ret) == ErrNonNil {
			okErr = true
		}
		if !okErr {
			// the verdict may travel through a variable to the exit (`if err := check(); err != nil { return 0, err }` once the
			// check is inlined): every path from the frozen outcome ends in a failing return and passes no index write
			paths, trunc := enumPaths(t, walkCfg{MaxVisits: 1, MaxPaths: 2000 * pathScale, Decide: decideOnPath})
			if !trunc && len(paths) > 0 {
				okErr = true
				n := 0
				for _, pth := range paths {
					if !pth.Feasible() {
						continue
					}
					n++
					if pth.End != EndReturn || pathErrClass(pth) != ErrNonNil || pth.Has(write) {
						okErr = false
					}
				}
				if n == 0 {
					okErr = false
				}
			}
		}
		r.Check(ok && okErr, rule, "h1:"+m, w.InstrPos(test)+" "+m, "frozen is tested inside the same exclusive m.mu section as the index write; frozen ⇒ error", fmt.Sprintf("frozen test and index write are not in one exclusive critical section (exclusive=%v) or frozen does not fail", exclusive))
	}
	// H2: freeze sets the flag under the exclusive memtable lock
	if fn := w.Fn("(*memtable).freeze"); fn != nil {
		c := NewCanon(w)
		locks, unlocks, _ := lockCallsOn(w, fn, "P0.mu")
		var set ssa.Instruction
		allInstrs(fn, func(in ssa.Instruction) {
			if call, ok := in.(*ssa.Call); ok && strings.HasSuffix(calleeName(call.Common()), "atomic.Bool).Store") && c.S(call.Call.Args[0]) == "P0.frozen" {
				set = in
			}
		})
		excl := false
		for _, l := range locks {
			if calleeName(l.(ssa.CallInstruction).Common()) == "(*sync.RWMutex).Lock" {
				excl = true
			}
		}
		r.Check(set != nil && excl && heldAt(fn, locks, unlocks, set), rule, "h2:freeze", w.Pos(fn.Pos())+" (*memtable).freeze", "freeze sets frozen under the exclusive memtable lock: when it returns no write is in flight and none will start", "freeze does not take the memtable lock exclusively: a write that passed the frozen test can land after freeze returned")
	} else {
		r.Unres(rule, "h2:freeze", "freeze not found")
	}
	// flush hands the index out only for a frozen memtable
	if fn := w.Fn("(*memtable).flush"); fn != nil {
		c := NewCanon(w)
		ok := false
		allInstrs(fn, func(in ssa.Instruction) {
			if iff, isIf := in.(*ssa.If); isIf {
				cond, neg := stripNot(iff.Cond)
				if strings.Contains(c.S(cond), "atomic.Bool).Load(P0.frozen)") {
					nf := iff.Block().Succs[1]
					if neg {
						nf = iff.Block().Succs[0]
					}
					if ret, isRet := nf.Instrs[len(nf.Instrs)-1].(*ssa.Return); isRet && classifyErr(ret) == ErrNonNil {
						ok = true
					}
				}
			}
		})
		r.Check(ok, rule, "h2:flush-requires-frozen", w.Pos(fn.Pos())+" (*memtable).flush", "the index is handed to the flusher only once the memtable is frozen", "flush hands out the index of a memtable that is not frozen")
	}
	// queue: add/addWithID/removeFromMutable call into the mutable memtable while holding the queue lock; rotation under the write lock
	for _, m := range []string{"(*memtableQueue).add", "(*memtableQueue).addWithID", "(*memtableQueue).removeFromMutable"} {
		fn := w.Fn(m)
		if fn == nil {
			r.Unres(rule, "queue:"+m, "not found")
			continue
		}
		r.Analysed(m)
		c := NewCanon(w)
		locks, unlocks, _ := lockCallsOn(w, fn, "P0.mu")
		var op ssa.Instruction
		allInstrs(fn, func(in ssa.Instruction) {
			if call, ok := in.(*ssa.Call); ok {
				if g := staticCallee(call.Common()); g != nil && (fnShortName(g) == "add" || fnShortName(g) == "addWithID" || fnShortName(g) == "remove") && len(call.Call.Args) > 0 {
					// the active memtable, read once or chosen among reads taken before / after a rotation
					isActive := true
					var leaves func(v ssa.Value, d int)
					leaves = func(v ssa.Value, d int) {
						if ph, isPhi := v.(*ssa.Phi); isPhi && d < 4 {
							for _, e := range ph.Edges {
								leaves(e, d+1)
							}
							return
						}
						if c.S(v) != "P0.mutable" {
							isActive = false
						}
					}
					leaves(call.Call.Args[0], 0)
					if isActive {
						op = in
					}
				}
			}
		})
		ok := op != nil && heldAt(fn, locks, unlocks, op)
		r.Check(ok, rule, "queue:"+m, w.Pos(fn.Pos())+" "+m, "the active memtable is written while the queue lock is held (it cannot be rotated / frozen between selection and write)", "the active memtable is selected under the queue lock but written after the lock was released")
	}
	if fn := w.Fn("(*memtableQueue).rotateNoLock"); fn != nil {
		// every caller holds the queue write lock
		// held(g, call): the queue's write lock is held at call in g — taken in g itself, or g is a helper (same receiver,
		// not used as a value) all of whose call sites hold it (bounded depth)
		var held func(g *ssa.Function, call ssa.Instruction, depth int) bool
		held = func(g *ssa.Function, call ssa.Instruction, depth int) bool {
			locks, unlocks, _ := lockCallsOn(w, g, "P0.mu")
			for _, l := range locks {
				if calleeName(l.(ssa.CallInstruction).Common()) == "(*sync.RWMutex).Lock" && domInstr(l, call) && heldAt(g, locks, unlocks, call) {
					return true
				}
			}
			if depth >= 2 || len(locks) > 0 || g.Signature.Recv() == nil || !types.Identical(g.Signature.Recv().Type(), fn.Signature.Recv().Type()) || addressTaken(w, g) {
				return false
			}
			n := 0
			for _, h := range w.Funcs {
				for _, cs := range callsIn(h, func(cc *ssa.CallCommon) bool { return staticCallee(cc) == g }) {
					n++
					// the helper must be called on the caller's own receiver
					if len(cs.Common().Args) == 0 || NewCanon(w).S(cs.Common().Args[0]) != "P0" || !held(h, cs, depth+1) {
						return false
					}
				}
			}
			return n > 0
		}
		for _, g := range w.Funcs {
			for _, call := range callsIn(g, func(cc *ssa.CallCommon) bool { return staticCallee(cc) == fn }) {
				r.Check(held(g, call, 0), rule, "queue:rotate-under-lock:"+w.Name(g), w.InstrPos(call)+" "+w.Name(g), "rotation happens under the queue's write lock", "rotation without the queue's write lock")
			}
		}
		// freeze precedes the replacement of the active memtable
		c := NewCanon(w)
		var fz, repl ssa.Instruction
		allInstrs(fn, func(in ssa.Instruction) {
			if call, ok := in.(*ssa.Call); ok {
				if g := staticCallee(call.Common()); g != nil && fnShortName(g) == "freeze" {
					fz = in
				}
			}
			if st, ok := in.(*ssa.Store); ok && c.S(st.Addr) == "P0.mutable" {
				repl = in
			}
		})
		r.Check(fz != nil && repl != nil && domInstr(fz, repl), rule, "queue:freeze-before-replace", w.Pos(fn.Pos())+" "+w.Name(fn), "the old active memtable is frozen before the new one takes its place", "the active memtable is replaced before it is frozen")
	}
}

// ruleStoreParams: the store search forwards the same parameter set to memtable and segment searches (sibling agreement).
func ruleStoreParams(r *Run, rule string, k *storeKind) {
	w := r.W
	r.Doc(rule, "a search parameter is applied to memtables but not to segments (or vice versa)")
	seg := segmentSearchFn(w, k)
	if seg == nil {
		r.Unres(rule, "params:closure", "segment closure not found")
		return
	}
	recvT := k.Execute.Signature.Recv().Type()
	set := func(fn *ssa.Function) map[string]bool {
		out := map[string]bool{}
		seen := map[*ssa.Function]bool{}
		var visit func(fn *ssa.Function, depth int)
		visit = func(fn *ssa.Function, depth int) {
			if seen[fn] || depth > 2 {
				return
			}
			seen[fn] = true
			allInstrs(fn, func(in ssa.Instruction) {
				call, ok := in.(*ssa.Call)
				if !ok {
					return
				}
				if call.Call.IsInvoke() && strings.HasPrefix(call.Call.Method.Name(), "With") {
					out[call.Call.Method.Name()] = true
				}
				// the builder chain extracted into a method of the same search object (s.searchOn(index))
				if g := staticCallee(call.Common()); g != nil && g.Pkg == w.SPkg && g.Signature.Recv() != nil && types.Identical(g.Signature.Recv().Type(), recvT) {
					visit(g, depth+1)
				}
			})
		}
		visit(fn, 0)
		return out
	}
	a, b := set(k.Execute), set(seg)
	want := []string{"WithK", "WithScoreAggregation", "WithCutoff", "WithFusion", "WithVector", "WithText", "WithMetadata", "WithMetadataGroups", "WithNProbes", "WithEfSearch", "WithThreshold"}
	var missing []string
	for _, m := range want {
		if !a[m] {
			missing = append(missing, "memtables:"+m)
		}
		if !b[m] {
			missing = append(missing, "segments:"+m)
		}
	}
	r.Check(len(missing) == 0, rule, "params:siblings", w.Pos(k.Execute.Pos())+" "+w.Name(k.Execute), fmt.Sprintf("memtable and segment searches receive the same %d parameters", len(want)), "parameters not forwarded: "+strings.Join(missing, ", "))
}

// rulePolarity: latent inconsistency of the final cut (reported, not claimed: masked by C08.TMPL on today's tree).
func rulePolarity(r *Run, rule string, k *storeKind) {
	w := r.W
	fn := k.Execute
	c := NewCanon(w)
	modalityDependent := false
	allInstrs(fn, func(in ssa.Instruction) {
		iff, ok := in.(*ssa.If)
		if !ok {
			return
		}
		s := c.S(iff.Cond)
		if strings.Contains(s, "textQueries") || strings.Contains(s, "vectorQuery") {
			// does this branch control the sort / cut?
			for _, succ := range iff.Block().Succs {
				for _, in2 := range succ.Instrs {
					if call, ok := in2.(*ssa.Call); ok {
						if g := staticCallee(call.Common()); g != nil && strings.HasPrefix(fnShortName(g), "sortResults") {
							modalityDependent = true
						}
					}
				}
			}
		}
	})
	if modalityDependent {
		r.Note(rule, "polarity:cut", w.Pos(fn.Pos())+" "+w.Name(fn), "the final ordering depends on the queried modality")
		return
	}
	r.Note(rule, "polarity:cut", w.Pos(fn.Pos())+" "+w.Name(fn),
		"LATENT, not claimed: per-part vector-only results are 'the k smallest distances of that part' but the store sorts the merged list by descending score and cuts to k regardless of modality; with more than one distinct part it would keep the k farthest candidates. Unobservable today because every part answers from the same shared index objects (known finding C08.TMPL); to be repaired together with it.")
}

// ruleStoreForwardGuards: every optional parameter is forwarded to a part's search exactly when it was given: the call
// search.WithX(s.f…) sits on the "f is present" side of a test of that very field (f != nil, len(f) > 0, f > 0).
func ruleStoreForwardGuards(r *Run, rule string, k *storeKind) {
	seg := segmentSearchFn(r.W, k)
	fns := []*ssa.Function{k.Execute}
	if seg != nil {
		fns = append(fns, seg)
	}
	ruleForwardGuards(r, rule, fns, map[string]bool{"WithVector": true, "WithText": true, "WithMetadata": true, "WithMetadataGroups": true, "WithNProbes": true, "WithEfSearch": true, "WithThreshold": true}, 14)
}

func ruleForwardGuards(r *Run, rule string, fns []*ssa.Function, optional map[string]bool, floor int) {
	w := r.W
	n := 0
	for _, fn := range fns {
		c := NewCanon(w)
		for _, call := range callsIn(fn, func(cc *ssa.CallCommon) bool { return cc.IsInvoke() && optional[cc.Method.Name()] }) {
			cc := call.Common()
			if len(cc.Args) == 0 {
				continue
			}
			n++
			arg := c.S(cc.Args[0])
			// the builder field handed on: P0.f / FVn.f (possibly spread: f...)
			field := arg
			if i := strings.LastIndex(field, "."); i >= 0 {
				field = field[i+1:]
			}
			field = strings.TrimRight(field, ")}].")
			site := w.InstrPos(call) + " " + w.Name(fn)
			key := fmt.Sprintf("params:guard:%s:%s", w.Name(fn), cc.Method.Name())
			// nearest dominating branch that selects the call's block
			decided := false
			for b := call.Block(); b != nil && !decided; b = b.Idom() {
				d := b.Idom()
				if d == nil {
					break
				}
				iff, isIf := d.Instrs[len(d.Instrs)-1].(*ssa.If)
				if !isIf {
					continue
				}
				onTrue := (d.Succs[0] == b || d.Succs[0].Dominates(b)) && len(d.Succs[0].Preds) == 1
				onFalse := (d.Succs[1] == b || d.Succs[1].Dominates(b)) && len(d.Succs[1].Preds) == 1
				if !onTrue && !onFalse {
					continue
				}
				cond, neg := stripNot(iff.Cond)
				// a presence test computed once by the enclosing function and captured by this goroutine body
				if cv := capturedValue(cond); cv != cond {
					c2, n2 := stripNot(cv)
					cond, neg = c2, neg != n2
				}
				present, known := false, false // does cond (un-negated) mean "the field is present"?
				subject := ""
				if x, nonNil, ok := nilCmp(c, cond); ok {
					subject, present, known = x, nonNil, true
				} else if x, nonEmpty, ok := nonEmptyCmp(c, cond); ok {
					subject, present, known = x, nonEmpty, true
				} else if bo, isB := cond.(*ssa.BinOp); isB {
					if cmp, n2, ok := normCmp(c, bo); ok {
						switch {
						case cmp.Op == token.LSS && cmp.L == "c(0)": // 0 < f
							subject, present, known = cmp.R, !n2, true
						case cmp.Op == token.LEQ && cmp.R == "c(0)": // f <= 0
							subject, present, known = cmp.L, n2, true
						case cmp.Op == token.LEQ && cmp.L == "c(1)": // 1 <= f
							subject, present, known = cmp.R, !n2, true
						case cmp.Op == token.LSS && cmp.R == "c(1)": // f < 1
							subject, present, known = cmp.L, n2, true
						case cmp.Op == token.EQL && (cmp.L == "c(0)" || cmp.R == "c(0)"): // f == 0 / f != 0
							other := cmp.L
							if other == "c(0)" {
								other = cmp.R
							}
							subject, present, known = other, n2, true
						}
					}
				}
				if !known || !strings.HasSuffix(subject, "."+field) {
					continue // some other branch (loop condition, error test): look further up
				}
				decided = true
				if neg {
					present = !present
				}
				good := (present && onTrue) || (!present && onFalse)
				r.Check(good, rule, key, site, cc.Method.Name()+" is applied exactly when "+field+" was given", cc.Method.Name()+" is applied on the side of the test of "+field+" where the parameter is absent: a given parameter is dropped and an absent one is forced on the sub-search")
			}
			if !decided {
				r.Bad(rule, key, site, cc.Method.Name()+"("+arg+") is not selected by a presence test of "+field+" (non-nil / non-empty / positive)")
			}
		}
	}
	if n < floor {
		r.add(rule, "params:guard:floor", "-", fmt.Sprintf("%d optional forwards found, floor is %d", n, floor), Floor)
	}
}

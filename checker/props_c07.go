package main

func init() {
	register("C07", propMeta{
		Explanation: "Writer/reader agreement decided on the source of the eight serialisable kinds: the token grammar of WriteTo equals the grammar ReadFrom consumes (fields, widths, raw runs preceded by their length, loops with their count, conditionals), implicit bounds restricted to frozen invariants, writer loops cover whole containers, byte counting complete (helper type switch + raw runs), header fields compared on read, every mutable field written and restored, reader parameter used only as the stream of binary.Read/io.ReadFull/nested ReadFrom (exact consumption), Flush precedes the read-locked serialisation, hybrid part order agrees between WriteTo, ReadFrom and the segment loader.",
		NotDecided:  "float equality after reload, HNSW answer identity after the flush inside WriteTo, PQ/IVFPQ node queries (excluded by the property).",
		Assumptions: []string{"encoding/binary writes fixed-width little-endian values and fails on short input", "io.ReadFull fails on short input"},
	}, func(r *Run) {
		kinds := ruleFMT(r, "C07", true, true, true, true, true, true, true, false)
		ruleWriteToFlushFirst(r, "C07.SEQ.flush", kinds)
		ruleHybridPartOrder(r, "C07.HYB")
		ruleHybridFlagBytes(r, "C07.HYB.FLAGS")
		ruleImplicitInvariants(r, "C07.FMT1.inv")
		r.FloorCheck("C07.FMT1", 16)
		r.FloorCheck("C07.FMT2", 14)
		r.FloorCheck("C07.FMT3", 10)
		r.FloorCheck("C07.FMT6", 8)
		r.FloorCheck("C07.FMT7", 15)
	})
}

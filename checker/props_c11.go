package main

func init() {
	register("C11", propMeta{
		Explanation: "Lock discipline decided on all paths of the current source: (LCK1) every access to a mutable field of the 13 structs that carry a mutex happens under that mutex in the required mode, directly or through every call site of its helper (must-lockset dataflow, helper inheritance, immutability inference, named exemptions with checked reasons); (LCK2) no guarded write depends on guarded reads made in an earlier critical section of the same mutex without re-validation, freeze handshake; (LCK3) no re-acquisition of a held mutex through a callee, acyclic lock order between classes, no blocking channel / WaitGroup operation under a comet mutex; (LCK4) sync.Pool objects are reset and nothing derived from them escapes after Put; global id counter only through atomic adds.",
		NotDecided:  "linearizability of visibility for whole histories, data races inside dependencies, liveness; what an operation racing with Close must do.",
		Assumptions: []string{"sync.RWMutex / sync.WaitGroup / sync.Pool / sync/atomic semantics", "methods of third-party types are classified reader/mutator by the frozen table of DESIGN section 2"},
	}, func(r *Run) {
		ruleGuardedBy(r, "C11.LCK1")
		ruleStaleActs(r, "C11.LCK2")
		ruleLockOrder(r, "C11.LCK3")
		ruleLockBalance(r, "C11.LCK5")
		rulePools(r, "C11.LCK4")
		rulePoolEscape(r, "C11.LCK4")
		ruleIDCounter(r, "C11.ID")
		ruleGlobalsWrittenOnlyAtInit(r, "C11.GLOBALS")
		r.FloorCheck("C11.LCK1", 30)
		r.FloorCheck("C11.LCK2", 8)
		r.FloorCheck("C11.LCK4", 6)
	})
}

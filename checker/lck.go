package main

// lck.go — lock discipline engine (DESIGN 3.5): must-lockset dataflow per function, guarded-field access
// classification, helper inheritance through call sites.

import (
	"fmt"
	"go/token"
	"go/types"
	"sort"
	"strings"

	"golang.org/x/tools/go/ssa"
)

type lockMode int

const (
	modeNone lockMode = iota
	modeR
	modeW
)

func (m lockMode) String() string { return [...]string{"-", "R", "W"}[m] }

// lockState: canonical mutex address -> mode held (must-information).
type lockState map[string]lockMode

func (s lockState) clone() lockState {
	o := lockState{}
	for k, v := range s {
		o[k] = v
	}
	return o
}

func meet(a, b lockState) lockState {
	o := lockState{}
	for k, va := range a {
		if vb, ok := b[k]; ok {
			if vb < va {
				o[k] = vb
			} else {
				o[k] = va
			}
		}
	}
	return o
}

func sameState(a, b lockState) bool {
	if len(a) != len(b) {
		return false
	}
	for k, v := range a {
		if b[k] != v {
			return false
		}
	}
	return true
}

func lockOp(in ssa.Instruction) (op string, isDefer bool, cc *ssa.CallCommon) {
	ci, ok := in.(ssa.CallInstruction)
	if !ok {
		return "", false, nil
	}
	_, isDefer = in.(*ssa.Defer)
	switch calleeName(ci.Common()) {
	case "(*sync.RWMutex).Lock", "(*sync.Mutex).Lock":
		return "Lock", isDefer, ci.Common()
	case "(*sync.RWMutex).RLock":
		return "RLock", isDefer, ci.Common()
	case "(*sync.RWMutex).Unlock", "(*sync.Mutex).Unlock":
		return "Unlock", isDefer, ci.Common()
	case "(*sync.RWMutex).RUnlock":
		return "RUnlock", isDefer, ci.Common()
	}
	return "", false, nil
}

// lockAnalysis holds, for one function, the lock state before every instruction.
type lockAnalysis struct {
	fn     *ssa.Function
	c      *Canon
	before map[ssa.Instruction]lockState
	entry  lockState
}

// analyseLocks runs the forward must-dataflow with the given entry state.
func analyseLocks(w *World, fn *ssa.Function, entry lockState) *lockAnalysis {
	la := &lockAnalysis{fn: fn, c: NewCanon(w), before: map[ssa.Instruction]lockState{}, entry: entry}
	in := map[*ssa.BasicBlock]lockState{}
	out := map[*ssa.BasicBlock]lockState{}
	if len(fn.Blocks) == 0 {
		return la
	}
	in[fn.Blocks[0]] = entry.clone()
	work := []*ssa.BasicBlock{fn.Blocks[0]}
	visited := map[*ssa.BasicBlock]bool{}
	for len(work) > 0 {
		b := work[0]
		work = work[1:]
		st := in[b].clone()
		for _, ins := range b.Instrs {
			la.before[ins] = st.clone()
			op, isDefer, cc := lockOp(ins)
			if op == "" || isDefer {
				continue
			}
			mu := la.c.S(cc.Args[0])
			switch op {
			case "Lock":
				st[mu] = modeW
			case "RLock":
				if st[mu] < modeR {
					st[mu] = modeR
				}
			case "Unlock", "RUnlock":
				delete(st, mu)
			}
		}
		if old, ok := out[b]; ok && sameState(old, st) && visited[b] {
			continue
		}
		visited[b] = true
		out[b] = st
		for _, s := range b.Succs {
			var ns lockState
			if cur, ok := in[s]; ok {
				ns = meet(cur, st)
				if sameState(ns, cur) && visited[s] {
					continue
				}
			} else {
				ns = st.clone()
			}
			in[s] = ns
			work = append(work, s)
		}
	}
	return la
}

// ---------------------------------------------------------------- guarded structs and accesses

type guardedClass struct {
	Name    string
	T       *types.Named
	Fields  []string
	MuField string // the struct's (first declared) mutex
	// a struct with several mutexes: every one of them, and the one each field is kept under (inferred from the
	// accesses: the mutex held at most of the field's accesses; the first declared mutex otherwise)
	MuFields []string
	Guard    map[string]string
}

func (g *guardedClass) guardOf(field string) string {
	if m, ok := g.Guard[field]; ok {
		return m
	}
	return g.MuField
}

// guardedClasses lists comet structs that contain a sync.RWMutex / sync.Mutex field.
func guardedClasses(w *World) []*guardedClass {
	var out []*guardedClass
	scope := w.Types.Scope()
	for _, n := range scope.Names() {
		tn, ok := scope.Lookup(n).(*types.TypeName)
		if !ok || tn.IsAlias() {
			continue
		}
		named, ok := tn.Type().(*types.Named)
		if !ok {
			continue
		}
		st, ok := named.Underlying().(*types.Struct)
		if !ok {
			continue
		}
		g := &guardedClass{Name: namedTypeName(named), T: named}
		for i := 0; i < st.NumFields(); i++ {
			f := st.Field(i)
			ts := tstr(f.Type(), nil)
			if ts == "sync.RWMutex" || ts == "sync.Mutex" {
				if g.MuField == "" {
					g.MuField = f.Name()
				}
				g.MuFields = append(g.MuFields, f.Name())
			} else {
				g.Fields = append(g.Fields, f.Name())
			}
		}
		if g.MuField != "" {
			out = append(out, g)
		}
	}
	sort.Slice(out, func(i, j int) bool { return out[i].Name < out[j].Name })
	return out
}

type fieldAccess struct {
	Fn    *ssa.Function
	In    ssa.Instruction // the FieldAddr
	Class string
	Field string
	Base  string // canonical of the struct pointer
	Write bool
	How   string
	Local bool // the struct was allocated in this function (not yet shared)
}

func isAtomicType(t types.Type) bool {
	return strings.HasPrefix(tstr(t, nil), "sync/atomic.")
}

// accessesOf lists accesses to fields of guarded classes in fn.
func accessesOf(w *World, fn *ssa.Function, classes map[string]*guardedClass) []fieldAccess {
	c := NewCanon(w)
	var out []fieldAccess
	allInstrs(fn, func(in ssa.Instruction) {
		fa, ok := in.(*ssa.FieldAddr)
		if !ok {
			return
		}
		pt, ok := fa.X.Type().Underlying().(*types.Pointer)
		if !ok {
			return
		}
		named, ok := pt.Elem().(*types.Named)
		if !ok {
			return
		}
		g := classes[namedTypeName(named)]
		if g == nil || named.Obj().Pkg() != w.Types {
			return
		}
		f := fieldName(fa.X.Type(), fa.Field)
		if f == g.MuField {
			return
		}
		st := named.Underlying().(*types.Struct)
		if isAtomicType(st.Field(fa.Field).Type()) || strings.HasPrefix(tstr(st.Field(fa.Field).Type(), nil), "sync.") {
			return // atomics, WaitGroups, pools synchronise themselves
		}
		// a struct held by value that carries its own mutex (a metrics block with a leaf lock): its fields are accounted
		// for under that mutex as accesses of its own class; taking its address synchronises nothing and needs nothing
		if nt, isNamed := st.Field(fa.Field).Type().(*types.Named); isNamed {
			if inner := classes[namedTypeName(nt)]; inner != nil && nt.Obj().Pkg() == w.Types {
				onlyAddr := true
				for _, ref := range *fa.Referrers() {
					switch x := ref.(type) {
					case *ssa.FieldAddr, *ssa.DebugRef:
					case ssa.CallInstruction:
						_ = x
					default:
						onlyAddr = false
					}
				}
				if onlyAddr {
					return
				}
			}
		}
		acc := fieldAccess{Fn: fn, In: in, Class: g.Name, Field: f, Base: c.S(fa.X)}
		// locally allocated object?
		root := fa.X
		for {
			if u, ok := root.(*ssa.UnOp); ok && u.Op == token.MUL {
				if a, ok := u.X.(*ssa.Alloc); ok {
					if sv := singleStore(a); sv != nil {
						root = sv
						continue
					}
				}
			}
			break
		}
		if _, ok := root.(*ssa.Alloc); ok {
			acc.Local = true
		}
		classify(w, fa, &acc)
		out = append(out, acc)
	})
	return out
}

var mutatingCallSuffixes = []string{"BSI).SetValue", "BSI).ClearValues", "BSI).ClearBits", "BSI).ParOr", "BSI).ParAnd", "BSI).UnmarshalBinary", "BSI).ReadFrom"}

// classify decides whether the field address is used to write (the field itself or the object it refers to).
func classify(w *World, fa *ssa.FieldAddr, acc *fieldAccess) {
	var visitVal func(v ssa.Value, depth int)
	markW := func(how string) {
		acc.Write = true
		if acc.How == "" {
			acc.How = how
		}
	}
	visitVal = func(v ssa.Value, depth int) {
		if depth > 3 || v.Referrers() == nil {
			return
		}
		for _, ref := range *v.Referrers() {
			switch x := ref.(type) {
			case *ssa.MapUpdate:
				if x.Map == v {
					markW("map update")
				}
			case *ssa.IndexAddr:
				if x.X == v {
					// element store / nested element store
					for _, r2 := range *x.Referrers() {
						switch y := r2.(type) {
						case *ssa.Store:
							if y.Addr == ssa.Value(x) {
								markW("element store")
							}
						case *ssa.UnOp:
							visitVal(y, depth+1)
						case *ssa.FieldAddr:
							for _, r3 := range *y.Referrers() {
								if st, ok := r3.(*ssa.Store); ok && st.Addr == ssa.Value(y) {
									markW("element field store")
								}
							}
						}
					}
				}
			case *ssa.Call:
				n := calleeName(x.Common())
				if b, ok := x.Call.Value.(*ssa.Builtin); ok {
					if (b.Name() == "delete" || b.Name() == "clear") && x.Call.Args[0] == v {
						markW(b.Name())
					}
					if b.Name() == "copy" && x.Call.Args[0] == v {
						markW("copy into")
					}
					continue
				}
				if len(x.Call.Args) > 0 && x.Call.Args[0] == v && !x.Call.IsInvoke() {
					if strings.HasPrefix(n, roaringBitmap) && roaringMutators[strings.TrimPrefix(n, roaringBitmap)] {
						markW("bitmap " + strings.TrimPrefix(n, roaringBitmap))
					}
					for _, suf := range mutatingCallSuffixes {
						if strings.HasSuffix(n, suf) {
							markW(suf)
						}
					}
				}
			case *ssa.Lookup:
				// reading an element of a map / string: nested object reads
				if x.X == v {
					visitVal(x, depth+1)
				}
			case *ssa.Extract:
				visitVal(x, depth+1)
			case *ssa.FieldAddr:
				// pointer field to another struct: nested store (node.Edges[lc] = …) writes the pointee
				if x.X == v {
					for _, r2 := range *x.Referrers() {
						if st, ok := r2.(*ssa.Store); ok && st.Addr == ssa.Value(x) {
							markW("pointee field store")
						}
						if ld, ok := r2.(*ssa.UnOp); ok {
							visitVal(ld, depth+1)
						}
					}
				}
			}
		}
	}
	for _, ref := range *fa.Referrers() {
		switch x := ref.(type) {
		case *ssa.Store:
			if x.Addr == ssa.Value(fa) {
				markW("store")
			}
		case *ssa.UnOp:
			if x.Op == token.MUL {
				visitVal(x, 0)
			}
		case *ssa.Call:
			// &x.f passed to a function (e.g. atomic.AddUint32(&x.f, 1)): treat non-atomic callees as writers
			n := calleeName(x.Common())
			if !strings.HasPrefix(n, "sync/atomic.") && !strings.HasPrefix(n, "(*sync/atomic.") {
				markW("address passed to " + n)
			}
		}
	}
}

// immutableFields: fields never written outside constructors (functions in which the object is local) — exempt from LCK1.
func immutableFields(all []fieldAccess) map[string]bool {
	written := map[string]bool{}
	seen := map[string]bool{}
	for _, a := range all {
		k := a.Class + "." + a.Field
		seen[k] = true
		if a.Write && !a.Local {
			written[k] = true
		}
	}
	out := map[string]bool{}
	for k := range seen {
		if !written[k] {
			out[k] = true
		}
	}
	return out
}

func describeState(s lockState) string {
	var parts []string
	for k, v := range s {
		parts = append(parts, fmt.Sprintf("%s:%s", k, v))
	}
	sort.Strings(parts)
	return "{" + strings.Join(parts, ",") + "}"
}

package main

// rules_lck.go — C11: LCK1 guarded-by, LCK2 stale check-then-act, LCK3 re-acquire / order / blocking, LCK4 pool escape.

import (
	"fmt"
	"go/token"
	"go/types"
	"sort"
	"strings"

	"golang.org/x/tools/go/ssa"
)

type lockReq struct {
	Path  string // canonical mutex path relative to the function's parameters / free variables
	Mode  lockMode
	Why   string // the access that needs it
	Site  string
	Field string
}

// syncExempt: fields synchronised by something other than the struct's mutex, one named symbol each, with the reason.
// Each reason is a checked statement where a rule exists for it.
var syncExempt = map[string]string{
	"segmentMetadata.numDocs":             "written only by updateStats, which is called on a freshly constructed segment before it is published through segmentManager.add (checked: C11.LCK1 publish-order) — afterwards the field is read-only",
	"PersistentHybridIndex.finalFlushErr": "written by the flush worker before wg.Done, read by Close after wg.Wait (WaitGroup happens-before; checked by C09.ERR err:Close:after-wait)",
}

func isExportedFn(fn *ssa.Function) bool {
	if fn.Parent() != nil {
		return false
	}
	name := fn.Name()
	if name == "" {
		return false
	}
	if fn.Signature.Recv() != nil {
		// exported method, or a method that satisfies an interface (may be invoked dynamically)
		return token.IsExported(name) || true && methodOfInterface(fn)
	}
	return token.IsExported(name)
}

func methodOfInterface(fn *ssa.Function) bool {
	// conservative: unexported methods are only callable statically inside the package
	return token.IsExported(fn.Name())
}

type lckWorld struct {
	w        *World
	classes  map[string]*guardedClass
	accesses map[*ssa.Function][]fieldAccess
	all      []fieldAccess
	immut    map[string]bool
	la       map[*ssa.Function]*lockAnalysis
	callers  map[*ssa.Function][]callSite
	goTarget map[*ssa.Function]bool
	closures map[*ssa.Function]*ssa.MakeClosure
}

type callSite struct {
	Caller *ssa.Function
	In     ssa.Instruction
	Args   []ssa.Value
}

var lckCache = map[*World]*lckWorld{}

func buildLck(w *World) *lckWorld {
	if l, ok := lckCache[w]; ok {
		return l
	}
	l := &lckWorld{w: w, classes: map[string]*guardedClass{}, accesses: map[*ssa.Function][]fieldAccess{}, la: map[*ssa.Function]*lockAnalysis{},
		callers: map[*ssa.Function][]callSite{}, goTarget: map[*ssa.Function]bool{}, closures: map[*ssa.Function]*ssa.MakeClosure{}}
	for _, g := range guardedClasses(w) {
		l.classes[g.Name] = g
	}
	for _, fn := range w.Funcs {
		acc := accessesOf(w, fn, l.classes)
		l.accesses[fn] = acc
		l.all = append(l.all, acc...)
		l.la[fn] = analyseLocks(w, fn, lockState{})
		allInstrs(fn, func(in ssa.Instruction) {
			switch x := in.(type) {
			case ssa.CallInstruction:
				cc := x.Common()
				if g := staticCallee(cc); g != nil && g.Pkg == w.SPkg {
					if _, isGo := in.(*ssa.Go); isGo {
						l.goTarget[g] = true
					} else if _, isDefer := in.(*ssa.Defer); !isDefer {
						l.callers[g] = append(l.callers[g], callSite{fn, in, cc.Args})
					} else {
						l.callers[g] = append(l.callers[g], callSite{fn, in, cc.Args})
					}
				}
				for _, a := range cc.Args {
					if mc, ok := a.(*ssa.MakeClosure); ok {
						if g, ok := mc.Fn.(*ssa.Function); ok {
							l.closures[g] = mc
						}
					}
				}
			case *ssa.MakeClosure:
				if g, ok := x.Fn.(*ssa.Function); ok {
					if _, seen := l.closures[g]; !seen {
						l.closures[g] = x
					}
				}
			}
		})
	}
	l.immut = immutableFields(l.all)
	// structs with more than one mutex: which mutex keeps which field
	for _, g := range l.classes {
		if len(g.MuFields) < 2 {
			continue
		}
		g.Guard = map[string]string{}
		held := map[string]map[string]int{}
		for _, a := range l.all {
			if a.Class != g.Name || a.Local {
				continue
			}
			for _, mu := range g.MuFields {
				if l.la[a.Fn].before[a.In][a.Base+"."+mu] >= modeR {
					if held[a.Field] == nil {
						held[a.Field] = map[string]int{}
					}
					held[a.Field][mu]++
				}
			}
		}
		for f, m := range held {
			best, bestN := g.MuField, m[g.MuField]
			for _, mu := range g.MuFields {
				if m[mu] > bestN {
					best, bestN = mu, m[mu]
				}
			}
			g.Guard[f] = best
		}
	}
	lckCache[w] = l
	return l
}

// translate maps a callee-relative path to the caller's canonical path at a call site (or closure creation).
func translatePath(c *Canon, path string, args []ssa.Value, bindings []ssa.Value) (string, bool) {
	rest := path
	head := path
	if i := strings.IndexAny(path, ".["); i >= 0 {
		head, rest = path[:i], path[i:]
	} else {
		rest = ""
	}
	if strings.HasPrefix(head, "P") {
		n := 0
		if _, err := fmt.Sscanf(head, "P%d", &n); err == nil && n < len(args) {
			return c.S(args[n]) + rest, true
		}
	}
	if strings.HasPrefix(head, "FV") {
		n := 0
		if _, err := fmt.Sscanf(head, "FV%d", &n); err == nil && n < len(bindings) {
			return c.S(bindings[n]) + rest, true
		}
	}
	return "", false
}

// ruleGuardedBy: LCK1.
func ruleGuardedBy(r *Run, rule string) {
	w := r.W
	l := buildLck(w)
	r.Doc(rule, "a guarded field is read or written without its mutex: data race under concurrent use")
	if len(l.classes) < 13 {
		r.add(rule, "classes:floor", "-", fmt.Sprintf("%d structs with a mutex found, expected 13", len(l.classes)), Floor)
	}
	// fields published through sync.Once: every write of the field lies in a function literal passed to (*sync.Once).Do
	oncePublished := map[string]bool{}
	{
		writes := map[string][]*ssa.Function{}
		for _, fn := range w.Funcs {
			for _, a := range l.accesses[fn] {
				if a.Write && !a.Local {
					writes[a.Class+"."+a.Field] = append(writes[a.Class+"."+a.Field], fn)
				}
			}
		}
		for k, fns := range writes {
			all := len(fns) > 0
			for _, fn := range fns {
				if !isOnceBody(w, fn) {
					all = false
				}
			}
			if all {
				oncePublished[k] = true
			}
		}
	}
	// entry requirements per function
	reqs := map[*ssa.Function][]lockReq{}
	for _, fn := range w.Funcs {
		la := l.la[fn]
		for _, a := range l.accesses[fn] {
			k := a.Class + "." + a.Field
			if a.Local || l.immut[k] {
				continue
			}
			if _, ok := syncExempt[k]; ok {
				continue
			}
			if oncePublished[k] {
				// a field created inside sync.Once.Do and read only after a Do on the same Once: the Once is the
				// synchronisation (every reader sees the fully initialised value)
				if onceAccessOK(w, fn, a.In, a.Write) {
					continue
				}
			}
			need := a.Base + "." + l.classes[a.Class].guardOf(a.Field)
			mode := modeR
			what := "read"
			if a.Write {
				mode = modeW
				what = "write (" + a.How + ")"
			}
			held := la.before[a.In][need]
			if held >= mode {
				continue
			}
			reqs[fn] = append(reqs[fn], lockReq{Path: need, Mode: mode, Why: what + " of " + k, Site: w.InstrPos(a.In) + " " + w.Name(fn), Field: k})
		}
	}
	// propagate through static call sites / closure creation sites
	type viol struct {
		req  lockReq
		via  string
		root *ssa.Function
	}
	var viols []viol
	covered := 0
	var resolve func(fn *ssa.Function, rq lockReq, depth int, via string)
	resolve = func(fn *ssa.Function, rq lockReq, depth int, via string) {
		if depth > 6 {
			viols = append(viols, viol{rq, via + " (call chain too deep)", fn})
			return
		}
		root := isExportedFn(fn) || l.goTarget[fn]
		sites := l.callers[fn]
		mc := l.closures[fn]
		if root || (len(sites) == 0 && mc == nil) {
			viols = append(viols, viol{rq, via, fn})
			if !root {
				return
			}
		}
		if mc != nil && fn.Parent() != nil {
			parent := fn.Parent()
			c := NewCanon(w)
			if p, ok := translatePath(c, rq.Path, nil, mc.Bindings); ok {
				if l.goTarget[fn] {
					viols = append(viols, viol{rq, via + " → goroutine started in " + w.Name(parent), fn})
				} else if l.la[parent].before[mc][p] >= rq.Mode {
					covered++
				} else {
					resolve(parent, lockReq{Path: p, Mode: rq.Mode, Why: rq.Why, Site: rq.Site, Field: rq.Field}, depth+1, via+" ← closure of "+w.Name(parent))
				}
			} else {
				viols = append(viols, viol{rq, via + " (free variable not translatable in " + w.Name(parent) + ")", fn})
			}
			return
		}
		for _, cs := range sites {
			c := NewCanon(w)
			p, ok := translatePath(c, rq.Path, cs.Args, nil)
			if !ok {
				viols = append(viols, viol{rq, via + " ← " + w.Name(cs.Caller) + " (path not translatable)", cs.Caller})
				continue
			}
			if l.la[cs.Caller].before[cs.In][p] >= rq.Mode {
				covered++
				continue
			}
			// is the object local to the caller (constructor)?
			if strings.HasPrefix(p, "cell:") || strings.HasPrefix(p, "v:") || strings.HasPrefix(p, "make") || strings.Contains(p, "(") && !strings.HasPrefix(p, "P") && !strings.HasPrefix(p, "FV") {
				// e.g. newMemtable(...).mu — freshly constructed object
				if strings.HasPrefix(p, "new") || strings.HasPrefix(p, "New") || strings.HasPrefix(p, "cell:") {
					covered++
					continue
				}
			}
			resolve(cs.Caller, lockReq{Path: p, Mode: rq.Mode, Why: rq.Why, Site: rq.Site, Field: rq.Field}, depth+1, via+" ← "+w.Name(cs.Caller))
		}
	}
	total := 0
	for _, fn := range w.Funcs {
		for _, rq := range reqs[fn] {
			total++
			resolve(fn, rq, 0, w.Name(fn))
		}
	}
	// report: one obligation per (class.field), violations listed with their access sites
	byField := map[string][]viol{}
	for _, v := range viols {
		byField[v.req.Field] = append(byField[v.req.Field], v)
	}
	nAcc := map[string]int{}
	for _, a := range l.all {
		nAcc[a.Class+"."+a.Field]++
	}
	var fields []string
	for k := range nAcc {
		fields = append(fields, k)
	}
	sort.Strings(fields)
	guarded := 0
	for _, k := range fields {
		if l.immut[k] {
			continue
		}
		if reason, ok := syncExempt[k]; ok {
			r.Note(rule, "guarded:"+k, "-", "not guarded by the struct's mutex — accepted: "+reason)
			continue
		}
		guarded++
		vs := byField[k]
		if len(vs) == 0 {
			r.Ok(rule, "guarded:"+k, "-", fmt.Sprintf("%d accesses, each under the required mode of %s.%s (directly or through every call site of its helper)", nAcc[k], strings.Split(k, ".")[0], l.classes[strings.Split(k, ".")[0]].guardOf(strings.SplitN(k, ".", 2)[1])))
			continue
		}
		seen := map[string]bool{}
		for _, v := range vs {
			key := "guarded:" + k + ":" + strings.SplitN(v.req.Site, " ", 2)[1]
			if seen[key+v.req.Mode.String()] {
				continue
			}
			seen[key+v.req.Mode.String()] = true
			r.Bad(rule, key+":"+v.req.Mode.String(), v.req.Site, fmt.Sprintf("%s without holding %s in mode %s (reached through %s)", v.req.Why, v.req.Path, v.req.Mode, v.via))
		}
	}
	rulePublishOrder(r, rule)
	r.Sites(len(l.all))
	r.Note(rule, "summary", "-", fmt.Sprintf("%d classes, %d field accesses, %d guarded fields, %d immutable fields, %d accesses needed inheritance from callers (%d call-site discharges)", len(l.classes), len(l.all), guarded, len(l.immut), total, covered))
	if guarded < 25 {
		r.add(rule, "guarded:floor", "-", fmt.Sprintf("only %d guarded fields, floor is 25", guarded), Floor)
	}
	for _, fn := range w.Funcs {
		if len(l.accesses[fn]) > 0 {
			r.Analysed(w.Name(fn))
		}
	}
}

var _ = types.Universe

// rulePublishOrder: the checked reason behind the numDocs exemption — updateStats only runs on a segment that is not yet
// shared: its receiver is the result of the segment constructor in the same function and the call precedes the publication.
func rulePublishOrder(r *Run, rule string) {
	w := r.W
	upd := w.Fn("(*segmentMetadata).updateStats")
	if upd == nil {
		r.Unres(rule, "publish-order", "updateStats not found")
		return
	}
	n := 0
	for _, fn := range w.Funcs {
		for _, call := range callsIn(fn, func(cc *ssa.CallCommon) bool { return staticCallee(cc) == upd }) {
			n++
			recv := call.Common().Args[0]
			fresh := false
			if c, ok := recv.(*ssa.Call); ok {
				if g := staticCallee(c.Common()); g != nil && fnShortName(g) == "newSegmentMetadata" {
					fresh = true
				}
			}
			before := true
			for _, add := range callsTo(fn, "(*"+cometPath+".segmentManager).add") {
				if add.Call.Args[1] == recv && !domInstr(call, add) {
					before = false
				}
			}
			r.Check(fresh && before, rule, "publish-order:"+w.Name(fn), w.InstrPos(call)+" "+w.Name(fn), "updateStats runs on a freshly constructed segment before it is published", "updateStats is applied to a segment that is (or may be) already shared: numDocs is then read without the lock while being written")
		}
	}
	// no other writer of numDocs
	l := buildLck(w)
	for _, a := range l.all {
		if a.Class == "segmentMetadata" && a.Field == "numDocs" && a.Write && a.Fn != upd && !a.Local {
			r.Bad(rule, "publish-order:writer:"+w.Name(a.Fn), w.InstrPos(a.In)+" "+w.Name(a.Fn), "numDocs is written outside updateStats")
		}
	}
	if n < 2 {
		r.add(rule, "publish-order:floor", "-", fmt.Sprintf("%d updateStats call sites, floor is 2", n), Floor)
	}
}

// ---------------------------------------------------------------- LCK2

// backSlice collects the values v transitively depends on (operands, phi edges, call arguments), bounded.
func backSlice(v ssa.Value, max int) map[ssa.Value]bool {
	seen := map[ssa.Value]bool{}
	var rec func(v ssa.Value, d int)
	rec = func(v ssa.Value, d int) {
		if v == nil || seen[v] || d > max {
			return
		}
		seen[v] = true
		in, ok := v.(ssa.Instruction)
		if !ok {
			return
		}
		for _, op := range in.Operands(nil) {
			if *op != nil {
				rec(*op, d+1)
			}
		}
		// a cell: values stored into it
		if a, ok := v.(*ssa.Alloc); ok {
			for _, ref := range *a.Referrers() {
				if st, ok := ref.(*ssa.Store); ok && st.Addr == ssa.Value(a) {
					rec(st.Val, d+1)
				}
			}
		}
	}
	rec(v, 0)
	return seen
}

// ruleStaleActs: LCK2 — a guarded write in a later critical section must not depend (data or control) on guarded reads
// of an earlier critical section of the same mutex, unless the same field is re-read and tested in the later section.
func ruleStaleActs(r *Run, rule string) {
	w := r.W
	l := buildLck(w)
	r.Doc(rule, "check-then-act across a lock release: the state checked may have changed before the act (lost update, double success, write onto a dropped object)")
	instances := 0
	for _, fn := range w.Funcs {
		c := NewCanon(w)
		type lk struct {
			in ssa.Instruction
			mu string
			// a critical section that lives in a helper: `v := s.loadedIndex()` takes s.mu, reads guarded fields and
			// releases it before returning; the call is lock and unlock at once and v carries what was read
			virtual *ssa.Call
			fields  []string
		}
		var locks, unlocks []lk
		allInstrs(fn, func(in ssa.Instruction) {
			op, isDefer, cc := lockOp(in)
			if op == "" || isDefer {
				return
			}
			if op == "Lock" || op == "RLock" {
				locks = append(locks, lk{in: in, mu: c.S(cc.Args[0])})
			} else {
				unlocks = append(unlocks, lk{in: in, mu: c.S(cc.Args[0])})
			}
		})
		allInstrs(fn, func(in ssa.Instruction) {
			call, ok := in.(*ssa.Call)
			if !ok || len(call.Call.Args) == 0 {
				return
			}
			g := staticCallee(call.Common())
			if g == nil || g == fn || g.Pkg != w.SPkg || g.Signature.Recv() == nil || g.Signature.Results().Len() == 0 {
				return
			}
			// g takes P0.<mutex> itself and reads guarded fields of P0 under it
			gc := NewCanon(w)
			mu := ""
			allInstrs(g, func(gi ssa.Instruction) {
				if op, _, cc := lockOp(gi); (op == "Lock" || op == "RLock") && strings.HasPrefix(gc.S(cc.Args[0]), "P0.") && strings.Count(gc.S(cc.Args[0]), ".") == 1 {
					mu = gc.S(cc.Args[0])
				}
			})
			if mu == "" {
				return
			}
			var fields []string
			for _, a := range l.accesses[g] {
				if a.Base == "P0" && !a.Write && !l.immut[a.Class+"."+a.Field] {
					fields = append(fields, a.Class+"."+a.Field)
				}
			}
			if len(fields) == 0 {
				return
			}
			locks = append(locks, lk{in: in, mu: c.S(call.Call.Args[0]) + strings.TrimPrefix(mu, "P0"), virtual: call, fields: fields})
		})
		if len(locks) < 2 {
			continue
		}
		for _, l1 := range locks {
			for _, l2 := range locks {
				if l1.in == l2.in || l1.mu != l2.mu || !domInstr(l1.in, l2.in) || l2.virtual != nil {
					continue
				}
				// an explicit unlock of the same mutex between them on every path? one that dominates l2 suffices
				var u ssa.Instruction
				if l1.virtual != nil {
					u = l1.in // released inside the helper before it returns
				}
				for _, ul := range unlocks {
					if ul.mu == l1.mu && domInstr(l1.in, ul.in) && domInstr(ul.in, l2.in) {
						u = ul.in
					}
				}
				if u == nil {
					// unlocks on branches (RUnlock; return / RUnlock; continue): any unlock reachable from l1 before l2
					for _, ul := range unlocks {
						if ul.mu == l1.mu && domInstr(l1.in, ul.in) && reachAvoid(fn, ul.in, func(in ssa.Instruction) bool { return in == l2.in }, func(in ssa.Instruction) bool { return in == l1.in }) != nil {
							u = ul.in
						}
					}
				}
				if u == nil {
					continue
				}
				base := strings.TrimSuffix(l1.mu, "."+lastSeg(l1.mu))
				// region-1 guarded loads, region-2 guarded writes of the same object
				var r1 []fieldAccess
				var r2w []fieldAccess
				var r2r []fieldAccess
				for _, a := range l.accesses[fn] {
					if a.Base != base || l.immut[a.Class+"."+a.Field] {
						continue
					}
					if domInstr(l1.in, a.In) && !domInstr(l2.in, a.In) && !a.Write {
						r1 = append(r1, a)
					}
					if domInstr(l2.in, a.In) {
						if a.Write {
							r2w = append(r2w, a)
						} else {
							r2r = append(r2r, a)
						}
					}
				}
				r1vals := map[ssa.Value]string{}
				if l1.virtual != nil {
					// what the helper read reaches this function as the call's result(s)
					r1 = nil
					r1vals[l1.virtual] = l1.fields[0]
					for _, ref := range *l1.virtual.Referrers() {
						if ex, ok := ref.(*ssa.Extract); ok {
							r1vals[ex] = l1.fields[0]
						}
					}
				}
				if (len(r1) == 0 && l1.virtual == nil) || len(r2w) == 0 {
					continue
				}
				for _, a := range r1 {
					r1vals[a.In.(*ssa.FieldAddr)] = a.Class + "." + a.Field
				}
				for _, wa := range r2w {
					instances++
					fa := wa.In.(*ssa.FieldAddr)
					// values written: stores to the field / through the loaded object, mutator arguments
					deps := map[ssa.Value]bool{}
					addDeps := func(v ssa.Value) {
						for x := range backSlice(v, 14) {
							deps[x] = true
						}
					}
					for _, ref := range *fa.Referrers() {
						switch x := ref.(type) {
						case *ssa.Store:
							if x.Addr == ssa.Value(fa) {
								addDeps(x.Val)
							}
						case *ssa.UnOp:
							for _, r2 := range *x.Referrers() {
								if call, ok := r2.(*ssa.Call); ok {
									for _, a := range call.Call.Args[1:] {
										addDeps(a)
									}
								}
								if mu, ok := r2.(*ssa.MapUpdate); ok {
									addDeps(mu.Key)
									addDeps(mu.Value)
								}
							}
						}
					}
					// control dependence: branches after l1 that dominate the write
					for b := wa.In.Block(); b != nil; b = b.Idom() {
						d := b.Idom()
						if d == nil {
							break
						}
						if iff, ok := d.Instrs[len(d.Instrs)-1].(*ssa.If); ok && domInstr(l1.in, iff) {
							// does the branch decide whether the write is reached?
							reach := 0
							for _, s := range d.Succs {
								if s == wa.In.Block() || reachAvoidAt(s, 0, func(in ssa.Instruction) bool { return in == wa.In }, nil) != nil {
									reach++
								}
							}
							if reach < len(d.Succs) {
								addDeps(iff.Cond)
							}
						}
					}
					staleOn := ""
					for v := range deps {
						if f, ok := r1vals[v]; ok {
							staleOn = f
						}
					}
					key := fmt.Sprintf("stale:%s:%s.%s", w.Name(fn), wa.Class, wa.Field)
					site := w.InstrPos(wa.In) + " " + w.Name(fn)
					if staleOn == "" {
						r.Ok(rule, key, site, fmt.Sprintf("write in the second critical section of %s does not depend on reads of the first", l1.mu))
						continue
					}
					// revalidation: a branch in region 2 dominating the write whose condition reads the same field in region 2
					reval := false
					for b := wa.In.Block(); b != nil; b = b.Idom() {
						d := b.Idom()
						if d == nil {
							break
						}
						if iff, ok := d.Instrs[len(d.Instrs)-1].(*ssa.If); ok && domInstr(l2.in, iff) {
							cs := backSlice(iff.Cond, 8)
							for _, ra := range r2r {
								if ra.Class+"."+ra.Field == staleOn && cs[ra.In.(*ssa.FieldAddr)] {
									reval = true
								}
							}
						}
					}
					r.Check(reval, rule, key, site, "depends on "+staleOn+" read in an earlier critical section but re-validates it under the second lock (double-checked idiom)",
						fmt.Sprintf("the write depends on %s read under %s in an earlier critical section (released at %s) and is not re-validated under the second acquisition", staleOn, l1.mu, w.InstrPos(u)))
				}
			}
		}
	}
	// handshake and snapshot rules that complete LCK2
	ruleFreezeHandshake(r, rule)
	if instances < 1 {
		r.add(rule, "stale:floor", "-", "no function with two critical sections of one mutex found (the double-checked segment cache is expected)", Floor)
	}
}

// isOnceBody: fn is a function literal whose only use is as the argument of (*sync.Once).Do.
func isOnceBody(w *World, fn *ssa.Function) bool {
	parent := fn.Parent()
	if parent == nil {
		return false
	}
	used, once := 0, 0
	allInstrs(parent, func(in ssa.Instruction) {
		mc, ok := in.(*ssa.MakeClosure)
		if !ok || mc.Fn != ssa.Value(fn) {
			return
		}
		for _, ref := range *mc.Referrers() {
			used++
			if call, ok := ref.(ssa.CallInstruction); ok && calleeName(call.Common()) == "(*sync.Once).Do" {
				once++
			}
		}
	})
	return used > 0 && used == once
}

// onceAccessOK: a write inside a Once body, or a read that follows a call of (*sync.Once).Do in the same function.
func onceAccessOK(w *World, fn *ssa.Function, at ssa.Instruction, write bool) bool {
	if isOnceBody(w, fn) {
		return true
	}
	if write {
		return false
	}
	ok := false
	allInstrs(fn, func(in ssa.Instruction) {
		if call, isCall := in.(*ssa.Call); isCall && calleeName(call.Common()) == "(*sync.Once).Do" && domInstr(in, at) {
			ok = true
		}
	})
	return ok
}

func lastSeg(s string) string {
	if i := strings.LastIndex(s, "."); i >= 0 {
		return s[i+1:]
	}
	return s
}

// ---------------------------------------------------------------- LCK3

type acqInfo struct {
	Paths   map[string]bool // param-relative mutex paths acquired (transitively)
	Classes map[string]bool // classes acquired (transitively, through interface dispatch too)
}

func ruleLockOrder(r *Run, rule string) {
	w := r.W
	l := buildLck(w)
	r.Doc(rule, "self-deadlock (re-entrant RWMutex acquisition with a writer waiting), lock-order inversion, or blocking while holding a lock")
	memo := map[*ssa.Function]*acqInfo{}
	var acquires func(fn *ssa.Function, depth int) *acqInfo
	classOfMu := func(v ssa.Value) string {
		if fa, ok := v.(*ssa.FieldAddr); ok {
			return namedTypeName(fa.X.Type())
		}
		return ""
	}
	acquires = func(fn *ssa.Function, depth int) *acqInfo {
		if a, ok := memo[fn]; ok {
			return a
		}
		a := &acqInfo{Paths: map[string]bool{}, Classes: map[string]bool{}}
		memo[fn] = a
		if depth > 6 || fn.Blocks == nil {
			return a
		}
		c := NewCanon(w)
		allInstrs(fn, func(in ssa.Instruction) {
			if _, isGo := in.(*ssa.Go); isGo {
				return
			}
			op, _, cc := lockOp(in)
			if op == "Lock" || op == "RLock" {
				a.Paths[c.S(cc.Args[0])] = true
				if cl := classOfMu(cc.Args[0]); cl != "" {
					a.Classes[cl] = true
				}
				return
			}
			ci, ok := in.(ssa.CallInstruction)
			if !ok {
				return
			}
			cm := ci.Common()
			var targets []*ssa.Function
			if cm.IsInvoke() {
				targets = vtaTargets(w, in)
				if len(targets) == 0 { // a library has no callers that instantiate the interface: fall back to the class hierarchy
					if iface, ok := cm.Value.Type().Underlying().(*types.Interface); ok {
						for _, T := range w.Implementers(iface) {
							if m := w.Method(T, cm.Method.Name()); m != nil {
								targets = append(targets, m)
							}
						}
					}
				}
			} else if g := staticCallee(cm); g != nil && g.Pkg == w.SPkg {
				targets = append(targets, g)
			}
			for _, g := range targets {
				sub := acquires(g, depth+1)
				for cl := range sub.Classes {
					a.Classes[cl] = true
				}
				if !cm.IsInvoke() {
					for p := range sub.Paths {
						if tp, ok := translatePath(c, p, cm.Args, nil); ok {
							a.Paths[tp] = true
						}
					}
				}
			}
		})
		return a
	}
	edges := map[string]map[string]string{}
	nCalls := 0
	for _, fn := range w.Funcs {
		la := l.la[fn]
		c := NewCanon(w)
		allInstrs(fn, func(in ssa.Instruction) {
			st := la.before[in]
			if len(st) == 0 {
				return
			}
			site := w.InstrPos(in) + " " + w.Name(fn)
			// blocking operations under a lock
			block := ""
			switch x := in.(type) {
			case *ssa.Send:
				block = "channel send"
			case *ssa.UnOp:
				if x.Op == token.ARROW {
					block = "channel receive"
				}
			case *ssa.Select:
				if x.Blocking {
					block = "blocking select"
				}
			case *ssa.Call:
				switch calleeName(x.Common()) {
				case "(*sync.WaitGroup).Wait":
					block = "WaitGroup.Wait"
				case "time.Sleep":
					block = "time.Sleep"
				}
			}
			if block != "" {
				r.Bad(rule, "order:blocking:"+w.Name(fn), site, block+" while holding "+describeState(st))
			}
			ci, ok := in.(ssa.CallInstruction)
			if !ok {
				return
			}
			if _, isGo := in.(*ssa.Go); isGo {
				return
			}
			if _, isDefer := in.(*ssa.Defer); isDefer {
				return
			}
			cm := ci.Common()
			var targets []*ssa.Function
			if cm.IsInvoke() {
				targets = vtaTargets(w, in)
				if len(targets) == 0 { // a library has no callers that instantiate the interface: fall back to the class hierarchy
					if iface, ok := cm.Value.Type().Underlying().(*types.Interface); ok {
						for _, T := range w.Implementers(iface) {
							if m := w.Method(T, cm.Method.Name()); m != nil {
								targets = append(targets, m)
							}
						}
					}
				}
			} else if g := staticCallee(cm); g != nil && g.Pkg == w.SPkg {
				targets = append(targets, g)
			}
			if len(targets) == 0 {
				return
			}
			nCalls++
			// held classes
			heldClasses := map[string]bool{}
			for mu := range st {
				// find the class of this mutex path through any lock op on it in this function
				allInstrs(fn, func(i2 ssa.Instruction) {
					if op, _, cc := lockOp(i2); op != "" && c.S(cc.Args[0]) == mu {
						if cl := classOfMu(cc.Args[0]); cl != "" {
							heldClasses[cl] = true
						}
					}
				})
			}
			for _, g := range targets {
				sub := acquires(g, 0)
				if !cm.IsInvoke() {
					for p := range sub.Paths {
						if tp, ok := translatePath(c, p, cm.Args, nil); ok {
							if _, held := st[tp]; held {
								r.Bad(rule, "order:reacquire:"+w.Name(fn)+":"+w.Name(g), site, fmt.Sprintf("%s is called while %s is held and acquires it again: an RWMutex is not re-entrant (deadlock as soon as a writer waits in between)", w.Name(g), tp))
							}
						}
					}
				}
				for hc := range heldClasses {
					for ac := range sub.Classes {
						if edges[hc] == nil {
							edges[hc] = map[string]string{}
						}
						if _, ok := edges[hc][ac]; !ok {
							edges[hc][ac] = site + " calls " + w.Name(g)
						}
					}
				}
			}
		})
	}
	// self edges are re-acquisitions of the same class on possibly different objects: report only cycles of length ≥ 2 here,
	// same-object re-acquisition is reported above
	var classes []string
	for k := range edges {
		classes = append(classes, k)
	}
	sort.Strings(classes)
	cyc := ""
	var path []string
	state := map[string]int{}
	var dfs func(n string)
	dfs = func(n string) {
		state[n] = 1
		path = append(path, n)
		var succ []string
		for m := range edges[n] {
			succ = append(succ, m)
		}
		sort.Strings(succ)
		for _, m := range succ {
			if m == n {
				continue
			}
			if state[m] == 1 && cyc == "" {
				i := 0
				for j, p := range path {
					if p == m {
						i = j
					}
				}
				cyc = strings.Join(append(append([]string(nil), path[i:]...), m), " → ")
			}
			if state[m] == 0 {
				dfs(m)
			}
		}
		path = path[:len(path)-1]
		state[n] = 2
	}
	for _, n := range classes {
		if state[n] == 0 {
			dfs(n)
		}
	}
	var es []string
	for _, a := range classes {
		var bs []string
		for b := range edges[a] {
			if b != a {
				bs = append(bs, b)
			}
		}
		sort.Strings(bs)
		if len(bs) > 0 {
			es = append(es, a+"→{"+strings.Join(bs, ",")+"}")
		}
	}
	r.Check(cyc == "", rule, "order:acyclic", "-", fmt.Sprintf("lock-order graph over mutex classes is acyclic (%d calls made under a lock): %s", nCalls, strings.Join(es, " ")), "lock-order cycle: "+cyc)
	// same-class edges on different objects (e.g. a hybrid index calling another hybrid index) are listed for information
	for _, a := range classes {
		if site, ok := edges[a][a]; ok {
			r.Note(rule, "order:same-class:"+a, site, "a "+a+" mutex is held while another object of the same class may be locked (not the same object: see order:reacquire)")
		}
	}
	if nCalls < 20 {
		r.add(rule, "order:floor", "-", fmt.Sprintf("only %d calls under a lock analysed, floor is 20", nCalls), Floor)
	}
	// close(closeChan) happens after the closed test-and-set (no double close)
	if k, err := storeKindOf(w); err == nil {
		fn := k.Close
		c := NewCanon(w)
		var cl, set ssa.Instruction
		allInstrs(fn, func(in ssa.Instruction) {
			if call, ok := in.(*ssa.Call); ok && calleeName(call.Common()) == "builtin:close" {
				cl = in
			}
		})
		if gate := findCloseGate(w, fn); gate != nil && gate.Atomic {
			set = gate.Set
		}
		_ = c
		onceOK := cl != nil && set != nil && domInstr(set, cl)
		if cl == nil {
			// closed inside a sync.Once body: once by construction
			for _, af := range fn.AnonFuncs {
				inOnce := false
				allInstrs(af, func(in ssa.Instruction) {
					if call, ok := in.(*ssa.Call); ok && calleeName(call.Common()) == "builtin:close" {
						inOnce = isOnceBody(w, af)
						cl = in
					}
				})
				if inOnce {
					onceOK = true
				}
			}
		}
		if !onceOK && cl != nil && set != nil {
			// not by dominance (the set may sit in one arm of an inlined helper): on every feasible path that reaches the
			// close, the flag was set before
			paths, trunc := enumPaths(fn.Blocks[0], walkCfg{MaxVisits: 2, MaxPaths: 20000})
			onceOK = !trunc
			for _, pth := range paths {
				if !pth.Feasible() {
					continue
				}
				seenSet := false
				for _, in := range pth.Instrs() {
					if in == set {
						seenSet = true
					}
					if in == cl && !seenSet {
						onceOK = false
					}
				}
			}
		}
		r.Check(onceOK, rule, "order:close-once", w.Pos(fn.Pos())+" "+w.Name(fn), "the close channel is closed only by the Close that set the closed flag", "close(closeChan) is not dominated by the closed test-and-set (double close panics)")
	}
}

// ---------------------------------------------------------------- LCK4

// pooledOrigin: v is (a type assertion of) sync.Pool.Get, directly or through a comet wrapper returning one.
func pooledOrigin(w *World, v ssa.Value, memo map[*ssa.Function]bool) bool {
	switch x := v.(type) {
	case *ssa.TypeAssert:
		return pooledOrigin(w, x.X, memo)
	case *ssa.Extract:
		return pooledOrigin(w, x.Tuple, memo)
	case *ssa.Call:
		if calleeName(x.Common()) == "(*sync.Pool).Get" {
			return true
		}
		if g := staticCallee(x.Common()); g != nil && g.Pkg == w.SPkg {
			if res, ok := memo[g]; ok {
				return res
			}
			memo[g] = false
			for _, ret := range returnsOf(g) {
				if len(ret.Results) == 1 && pooledOrigin(w, ret.Results[0], memo) {
					memo[g] = true
				}
			}
			return memo[g]
		}
	}
	return false
}

func rulePoolEscape(r *Run, rule string) {
	w := r.W
	r.Doc(rule, "a value that shares memory with a pooled object is used after the object went back to the pool: concurrent searches overwrite each other's data")
	memo := map[*ssa.Function]bool{}
	putMemo := map[*ssa.Function]bool{}
	var putsPool func(g *ssa.Function) bool
	putsPool = func(g *ssa.Function) bool {
		if res, ok := putMemo[g]; ok {
			return res
		}
		putMemo[g] = false
		allInstrs(g, func(in ssa.Instruction) {
			if ci, ok := in.(ssa.CallInstruction); ok && calleeName(ci.Common()) == "(*sync.Pool).Put" {
				putMemo[g] = true
			}
		})
		return putMemo[g]
	}
	n := 0
	for _, fn := range w.Funcs {
		// pooled values obtained here
		var pooled []ssa.Value
		allInstrs(fn, func(in ssa.Instruction) {
			if v, ok := in.(ssa.Value); ok && pooledOrigin(w, v, memo) {
				if _, isCall := v.(*ssa.Call); isCall || isTA(v) {
					pooled = append(pooled, v)
				}
			}
		})
		if len(pooled) == 0 {
			continue
		}
		// returned to the pool here (directly, via a wrapper, deferred or not)?
		back := map[ssa.Value]bool{}
		allInstrs(fn, func(in ssa.Instruction) {
			ci, ok := in.(ssa.CallInstruction)
			if !ok {
				return
			}
			cm := ci.Common()
			isPut := calleeName(cm) == "(*sync.Pool).Put"
			if g := staticCallee(cm); g != nil && g.Pkg == w.SPkg && putsPool(g) {
				isPut = true
			}
			// deferred closure that puts
			if mc, ok := cm.Value.(*ssa.MakeClosure); ok {
				if g, ok := mc.Fn.(*ssa.Function); ok && putsPool(g) {
					for _, p := range pooled {
						back[p] = true
					}
				}
			}
			if !isPut {
				return
			}
			for _, a := range cm.Args {
				if mi, ok := a.(*ssa.MakeInterface); ok {
					a = mi.X
				}
				for _, p := range pooled {
					if a == p {
						back[p] = true
					}
				}
			}
		})
		// returned at most once: an object that goes back to the pool twice is handed to two later users at once
		for pi, p := range pooled {
			if !back[p] {
				continue
			}
			var puts []ssa.Instruction
			deferred := 0
			allInstrs(fn, func(in ssa.Instruction) {
				ci, ok := in.(ssa.CallInstruction)
				if !ok {
					return
				}
				cm := ci.Common()
				isPut := calleeName(cm) == "(*sync.Pool).Put"
				if g := staticCallee(cm); g != nil && g.Pkg == w.SPkg && putsPool(g) {
					isPut = true
				}
				if !isPut {
					return
				}
				for _, a := range cm.Args {
					if mi, ok := a.(*ssa.MakeInterface); ok {
						a = mi.X
					}
					if a == p {
						puts = append(puts, in)
						if _, isDefer := in.(*ssa.Defer); isDefer {
							deferred++
						}
					}
				}
			})
			twice := ""
			for _, a := range puts {
				_, aDef := a.(*ssa.Defer)
				for _, b := range puts {
					if a == b {
						continue
					}
					_, bDef := b.(*ssa.Defer)
					switch {
					case aDef && !bDef:
						// the deferred put runs at every exit after it was registered: any explicit put reachable from the
						// registration is a second one
						if reachAvoid(fn, a, func(in ssa.Instruction) bool { return in == b }, func(ssa.Instruction) bool { return false }) != nil {
							twice = w.InstrPos(b)
						}
					case !aDef && !bDef:
						if reachAvoid(fn, a, func(in ssa.Instruction) bool { return in == b }, func(ssa.Instruction) bool { return false }) != nil {
							twice = w.InstrPos(b)
						}
					}
				}
			}
			if len(puts) > 0 {
				r.Check(twice == "", rule, fmt.Sprintf("pool:put-once:%s#%d", w.Name(fn), pi), w.InstrPos(puts[0])+" "+w.Name(fn), fmt.Sprintf("the pooled object is returned at most once on every path (%d return sites, %d deferred)", len(puts), deferred),
					"the pooled object is returned to the pool a second time at "+twice+": two later searches receive the same object")
			}
		}
		for _, p := range pooled {
			if !back[p] {
				continue // a getter wrapper: the caller owns the object
			}
			n++
			name := w.Name(fn)
			r.Analysed(name)
			// references derived from p
			derived := map[ssa.Value]bool{p: true}
			changed := true
			for changed {
				changed = false
				allInstrs(fn, func(in ssa.Instruction) {
					v, ok := in.(ssa.Value)
					if !ok || derived[v] {
						return
					}
					isRef := false
					switch v.Type().Underlying().(type) {
					case *types.Slice, *types.Pointer, *types.Map:
						isRef = true
					}
					if !isRef {
						return
					}
					switch x := in.(type) {
					case *ssa.UnOp:
						if x.Op == token.MUL && derived[x.X] {
							derived[v] = true
							changed = true
						}
						// read back from a local variable cell (a variable captured by a closure) that was given a
						// derived reference
						if a, isA := x.X.(*ssa.Alloc); isA && x.Op == token.MUL && !derived[v] {
							for _, ref := range *a.Referrers() {
								if st, isSt := ref.(*ssa.Store); isSt && st.Addr == ssa.Value(a) && derived[st.Val] {
									derived[v] = true
									changed = true
								}
							}
						}
					case *ssa.Slice:
						if derived[x.X] {
							derived[v] = true
							changed = true
						}
					case *ssa.FieldAddr:
						if derived[x.X] {
							derived[v] = true
							changed = true
						}
					case *ssa.IndexAddr:
						if derived[x.X] {
							derived[v] = true
							changed = true
						}
					case *ssa.Phi:
						for _, e := range x.Edges {
							if derived[e] {
								derived[v] = true
								changed = true
							}
						}
					case *ssa.ChangeType:
						if derived[x.X] {
							derived[v] = true
							changed = true
						}
					}
				})
			}
			esc := ""
			for _, ret := range returnsOf(fn) {
				for i := range ret.Results {
					v := resultValue(ret, i)
					if mi, ok := v.(*ssa.MakeInterface); ok {
						v = mi.X
					}
					if derived[v] {
						esc = "returned at " + w.InstrPos(ret)
					}
				}
			}
			allInstrs(fn, func(in ssa.Instruction) {
				if st, ok := in.(*ssa.Store); ok && derived[st.Val] && !isLocalCell(st.Addr) && !derived[st.Addr] {
					if pr := paramRoot(st.Addr); pr != nil {
						esc = "stored into longer-lived memory at " + w.InstrPos(st)
					}
				}
			})
			site := w.InstrPos(p.(ssa.Instruction)) + " " + name
			r.Check(esc == "", rule, fmt.Sprintf("pool-escape:%s#%d", name, n), site, "nothing that shares memory with the pooled object leaves the function that puts it back", "a reference into the pooled object is "+esc+" although the object is returned to the pool by this function")
		}
	}
	if n < 3 {
		r.add(rule, "pool-escape:floor", "-", fmt.Sprintf("%d get-and-put sites found, floor is 3", n), Floor)
	}
}

func isTA(v ssa.Value) bool { _, ok := v.(*ssa.TypeAssert); return ok }

// ruleGlobalsWrittenOnlyAtInit: package-level variables are written only by init / their initialisers (or atomically).
func ruleGlobalsWrittenOnlyAtInit(r *Run, rule string) {
	w := r.W
	r.Doc(rule, "a package-level variable is written at run time without synchronisation")
	n := 0
	for _, fn := range w.Funcs {
		if fn.Name() == "init" || strings.HasPrefix(fn.Name(), "init#") {
			continue
		}
		allInstrs(fn, func(in ssa.Instruction) {
			st, ok := in.(*ssa.Store)
			if !ok {
				return
			}
			if g, ok := st.Addr.(*ssa.Global); ok && g.Pkg == w.SPkg {
				n++
				r.Bad(rule, "globals:"+g.Name()+":"+w.Name(fn), w.InstrPos(in)+" "+w.Name(fn), "package variable "+g.Name()+" is assigned at run time")
			}
		})
	}
	if n == 0 {
		ng := 0
		for _, m := range w.SPkg.Members {
			if _, ok := m.(*ssa.Global); ok {
				ng++
			}
		}
		r.Ok(rule, "globals:init-only", "-", fmt.Sprintf("%d package-level variables, none assigned outside init (the id counter is atomic, see C11.ID)", ng))
	}
}

// vtaTargets resolves the comet callees of an interface call through the whole-program VTA call graph
// (class-hierarchy expansion would connect a memtable's index to the persistent store and report infeasible lock orders).
func vtaTargets(w *World, in ssa.Instruction) []*ssa.Function {
	cg := w.CallGraph()
	node := cg.Nodes[in.Parent()]
	if node == nil {
		return nil
	}
	var out []*ssa.Function
	for _, e := range node.Out {
		if e.Site != nil && ssa.Instruction(e.Site) == in && e.Callee.Func != nil && e.Callee.Func.Pkg == w.SPkg {
			out = append(out, e.Callee.Func)
		}
	}
	return out
}

// ruleLockBalance: LCK5 — a mutex a function takes is released again on every way out: at each return the must-lockset
// holds nothing the function acquired itself, unless a deferred Unlock / RUnlock of that very mutex was registered on the
// way. (A read lock that is never released blocks every later writer for good; the tests, being sequential, do not
// notice.) Functions that hand the lock to their caller on purpose would show up here: the tree has none.
func ruleLockBalance(r *Run, rule string) {
	w := r.W
	l := buildLck(w)
	r.Doc(rule, "a lock is left held on some exit: every later writer (or reader) of that object blocks forever")
	n := 0
	for _, fn := range w.Funcs {
		la := l.la[fn]
		if la == nil {
			continue
		}
		// mutexes with a deferred release, by canonical name, and where the defer was registered
		type dreg struct {
			mu string
			in ssa.Instruction
		}
		var defers []dreg
		acquires := false
		allInstrs(fn, func(in ssa.Instruction) {
			op, isDefer, cc := lockOp(in)
			if op == "" {
				return
			}
			if isDefer && (op == "Unlock" || op == "RUnlock") {
				defers = append(defers, dreg{la.c.S(cc.Args[0]), in})
			}
			if !isDefer && (op == "Lock" || op == "RLock") {
				acquires = true
			}
		})
		// a deferred call of a helper of the package whose job is the release (defer sm.runlock())
		allInstrs(fn, func(in ssa.Instruction) {
			d, ok := in.(*ssa.Defer)
			if !ok {
				return
			}
			g := staticCallee(d.Common())
			if g == nil || g.Pkg != w.SPkg || len(g.Blocks) == 0 {
				return
			}
			cg := NewCanon(w)
			allInstrs(g, func(in2 ssa.Instruction) {
				if op, isDef, cc := lockOp(in2); !isDef && (op == "Unlock" || op == "RUnlock") {
					if t, ok := translatePath(la.c, cg.S(cc.Args[0]), d.Call.Args, nil); ok {
						defers = append(defers, dreg{t, in})
					}
				}
			})
		})
		// a deferred closure that unlocks counts as well
		allInstrs(fn, func(in ssa.Instruction) {
			d, ok := in.(*ssa.Defer)
			if !ok {
				return
			}
			if mc, ok := d.Call.Value.(*ssa.MakeClosure); ok {
				if g, ok := mc.Fn.(*ssa.Function); ok {
					cg := NewCanon(w)
					allInstrs(g, func(in2 ssa.Instruction) {
						if op, isDef, cc := lockOp(in2); !isDef && (op == "Unlock" || op == "RUnlock") {
							if t, ok := translatePath(la.c, cg.S(cc.Args[0]), nil, mc.Bindings); ok {
								defers = append(defers, dreg{t, in})
							}
						}
					})
				}
			}
		})
		if !acquires {
			continue
		}
		n++
		leak := ""
		for _, ret := range returnsOf(fn) {
			held := la.before[ret]
			for mu := range held {
				covered := false
				for _, d := range defers {
					if d.mu == mu && domInstr(d.in, ret) {
						covered = true
					}
				}
				if !covered {
					leak = mu + " is still held at the return at " + w.InstrPos(ret)
				}
			}
		}
		// panics are exits too, but the tree's only panics are bugs already; not considered
		r.Check(leak == "", rule, "balance:"+w.Name(fn), w.Pos(fn.Pos())+" "+w.Name(fn), "every lock taken is released on every return path", leak)
	}
	if n < 40 {
		r.add(rule, "balance:floor", "-", fmt.Sprintf("only %d lock-taking functions analysed, floor is 40", n), Floor)
	}
}

package main

// ssahelp.go — recognisers for common go/ssa shapes (append, composite literals, closures, heap ops).

import (
	"go/token"
	"go/types"
	"sort"
	"strings"

	"golang.org/x/tools/go/ssa"
)

// isBuiltinCall reports whether v is a call to the named builtin.
func isBuiltinCall(in ssa.Instruction, name string) (*ssa.Call, bool) {
	c, ok := in.(*ssa.Call)
	if !ok {
		return nil, false
	}
	b, ok := c.Call.Value.(*ssa.Builtin)
	if !ok || b.Name() != name {
		return nil, false
	}
	return c, true
}

// appendedElems returns the element values of `append(s, e1, e2...)` when the variadic
// part is a fresh varargs array (the common shape); ok=false for `append(s, t...)`.
func appendedElems(c *ssa.Call) (elems []ssa.Value, ok bool) {
	if len(c.Call.Args) != 2 {
		return nil, false
	}
	sl, isSlice := c.Call.Args[1].(*ssa.Slice)
	if !isSlice {
		return nil, false
	}
	arr, isAlloc := sl.X.(*ssa.Alloc)
	if !isAlloc || arr.Comment != "varargs" {
		return nil, false
	}
	for _, r := range *arr.Referrers() {
		ia, ok := r.(*ssa.IndexAddr)
		if !ok {
			continue
		}
		for _, rr := range *ia.Referrers() {
			if st, ok := rr.(*ssa.Store); ok && st.Addr == ia {
				elems = append(elems, st.Val)
			}
		}
	}
	return elems, len(elems) > 0
}

// sliceElems lists every value that can be an element of the local slice v (built from a slice literal and appends,
// joined by phis). ok=false when the slice has any other origin.
func sliceElems(v ssa.Value) (elems []ssa.Value, ok bool) {
	seen := map[ssa.Value]bool{}
	ok = true
	var visit func(v ssa.Value)
	visit = func(v ssa.Value) {
		if seen[v] || !ok {
			return
		}
		seen[v] = true
		switch x := v.(type) {
		case *ssa.Phi:
			for _, e := range x.Edges {
				visit(e)
			}
		case *ssa.Const:
			if x.Value != nil {
				ok = false
			}
		case *ssa.Call:
			if b, isB := x.Call.Value.(*ssa.Builtin); isB && b.Name() == "append" {
				visit(x.Call.Args[0])
				es, okE := appendedElems(x)
				if !okE {
					ok = false
					return
				}
				elems = append(elems, es...)
				return
			}
			ok = false
		case *ssa.Slice:
			arr, isAlloc := x.X.(*ssa.Alloc)
			// make([]T, 0, constant) is a fresh array sliced to length 0: an empty start
			if isAlloc && arr.Comment == "makeslice" && x.Low == nil && x.High != nil {
				if hc, isC := x.High.(*ssa.Const); isC && hc.Value != nil && hc.Int64() == 0 {
					return
				}
			}
			if !isAlloc || x.Low != nil || x.High != nil {
				ok = false
				return
			}
			for _, r := range *arr.Referrers() {
				switch y := r.(type) {
				case *ssa.IndexAddr:
					for _, rr := range *y.Referrers() {
						if st, isSt := rr.(*ssa.Store); isSt && st.Addr == ssa.Value(y) {
							elems = append(elems, st.Val)
						} else {
							ok = false
						}
					}
				case *ssa.Slice:
				default:
					ok = false
				}
			}
		case *ssa.MakeSlice:
			// elements arrive through appends (len 0) — stores by index are not tracked
			if c, isC := x.Len.(*ssa.Const); !isC || c.Int64() != 0 {
				ok = false
			}
		default:
			ok = false
		}
	}
	visit(v)
	return elems, ok
}

// litFields resolves a struct value built by a composite literal (`local T (complit)` with
// one store per field, then loaded) to its field values. ok=false when v is not of that shape.
func litFields(v ssa.Value) (map[string]ssa.Value, bool) {
	var a *ssa.Alloc
	switch x := v.(type) {
	case *ssa.UnOp:
		if x.Op != token.MUL {
			return nil, false
		}
		a, _ = x.X.(*ssa.Alloc)
	case *ssa.Alloc:
		a = x
	}
	if a == nil {
		return nil, false
	}
	out := map[string]ssa.Value{}
	for _, r := range *a.Referrers() {
		fa, ok := r.(*ssa.FieldAddr)
		if !ok {
			continue
		}
		name := fieldName(fa.X.Type(), fa.Field)
		n := 0
		for _, rr := range *fa.Referrers() {
			if st, ok := rr.(*ssa.Store); ok && st.Addr == fa {
				out[name] = st.Val
				n++
			}
		}
		if n > 1 {
			return nil, false
		}
	}
	return out, len(out) > 0
}

// namedTypeName returns the name of a (pointer to) named type, "" otherwise.
func namedTypeName(t types.Type) string {
	if p, ok := t.(*types.Pointer); ok {
		t = p.Elem()
	}
	if n, ok := t.(*types.Named); ok {
		if a, ok := typeAlias[n.Obj().Name()]; ok && n.Obj().Pkg() != nil && n.Obj().Pkg().Path() == cometPath {
			return a
		}
		return n.Obj().Name()
	}
	return ""
}

func isFloat32(t types.Type) bool {
	b, ok := t.Underlying().(*types.Basic)
	return ok && b.Kind() == types.Float32
}

func isRoaringBitmapPtr(t types.Type) bool {
	return tstr(t, nil) == "*github.com/RoaringBitmap/roaring.Bitmap"
}

const roaringBitmap = "(*github.com/RoaringBitmap/roaring.Bitmap)."

// closureArg returns the function of a closure (or function value) passed as argument i of call.
func closureArg(c *ssa.CallCommon, i int) *ssa.Function {
	if i >= len(c.Args) {
		return nil
	}
	switch x := c.Args[i].(type) {
	case *ssa.MakeClosure:
		f, _ := x.Fn.(*ssa.Function)
		return f
	case *ssa.Function:
		return x
	}
	return nil
}

// comparatorDirection analyses a `func(i, j int) bool` comparator (sort.Slice style or
// Less method): it must return a single comparison between the same projection of element
// P_i and element P_j. Returns "asc" (less ⇔ a<b), "desc" (less ⇔ a>b) or "" plus the field path.
func comparatorDirection(w *World, fn *ssa.Function) (dir, field, why string) {
	rets := returnsOf(fn)
	if len(rets) != 1 || len(rets[0].Results) != 1 {
		// several returns / tie-breaks: decide by evaluation
		return comparatorByEvaluation(w, fn)
	}
	if _, single := rets[0].Results[0].(*ssa.BinOp); !single {
		return comparatorByEvaluation(w, fn)
	}
	bo, ok := rets[0].Results[0].(*ssa.BinOp)
	if !ok {
		return "", "", "comparator does not return a single comparison"
	}
	c := NewCanon(w)
	cmp, neg, ok := normCmp(c, bo)
	if !ok || cmp.Op == token.EQL {
		return "", "", "comparator result is not an order comparison"
	}
	// parameters i, j are the last two parameters
	np := len(fn.Params)
	if np < 2 {
		return "", "", "comparator has fewer than two parameters"
	}
	pi, pj := "P"+itoa(np-2), "P"+itoa(np-1)
	li, lj := strings.Contains(cmp.L, "["+pi+"]"), strings.Contains(cmp.L, "["+pj+"]")
	ri, rj := strings.Contains(cmp.R, "["+pi+"]"), strings.Contains(cmp.R, "["+pj+"]")
	var asc bool
	switch {
	case li && !lj && rj && !ri:
		asc = true // elem_i < elem_j
		if strings.Replace(cmp.L, "["+pi+"]", "[#]", 1) != strings.Replace(cmp.R, "["+pj+"]", "[#]", 1) {
			return "", "", "comparator compares different projections: " + cmp.L + " vs " + cmp.R
		}
		field = strings.Replace(cmp.L, "["+pi+"]", "[#]", 1)
	case lj && !li && ri && !rj:
		asc = false // elem_j < elem_i  ⇔ elem_i > elem_j
		if strings.Replace(cmp.L, "["+pj+"]", "[#]", 1) != strings.Replace(cmp.R, "["+pi+"]", "[#]", 1) {
			return "", "", "comparator compares different projections: " + cmp.L + " vs " + cmp.R
		}
		field = strings.Replace(cmp.L, "["+pj+"]", "[#]", 1)
	default:
		return "", "", "comparator operands are not element i / element j: " + cmp.L + " ? " + cmp.R
	}
	if neg {
		asc = !asc
	}
	if asc {
		return "asc", field, ""
	}
	return "desc", field, ""
}

// comparatorByEvaluation handles lexicographic comparators (primary key, then tie-breaks) and comparators written with
// branches: the body is interpreted under every combination of relations (<, =, >) between the i-th and j-th element's
// projections it compares. The primary key is the projection F such that F_i < F_j forces one answer and F_i > F_j the
// other, whatever the remaining projections are; "asc" when F_i < F_j ⇒ true.
func comparatorByEvaluation(w *World, fn *ssa.Function) (dir, field, why string) {
	np := len(fn.Params)
	if np < 2 {
		return "", "", "comparator has fewer than two parameters"
	}
	pi, pj := "P"+itoa(np-2), "P"+itoa(np-1)
	c := NewCanon(w)
	// projections compared
	type cmpInfo struct {
		field string
		iLeft bool // element i on the left
	}
	infos := map[*ssa.BinOp]cmpInfo{}
	fieldSet := map[string]bool{}
	allInstrs(fn, func(in ssa.Instruction) {
		bo, ok := in.(*ssa.BinOp)
		if !ok {
			return
		}
		switch bo.Op {
		case token.LSS, token.GTR, token.LEQ, token.GEQ, token.EQL, token.NEQ:
		default:
			return
		}
		l, r := c.S(bo.X), c.S(bo.Y)
		li, lj := strings.Contains(l, "["+pi+"]"), strings.Contains(l, "["+pj+"]")
		ri, rj := strings.Contains(r, "["+pi+"]"), strings.Contains(r, "["+pj+"]")
		switch {
		case li && !lj && rj && !ri:
			f := strings.Replace(l, "["+pi+"]", "[#]", 1)
			if f == strings.Replace(r, "["+pj+"]", "[#]", 1) {
				infos[bo] = cmpInfo{f, true}
				fieldSet[f] = true
			}
		case lj && !li && ri && !rj:
			f := strings.Replace(l, "["+pj+"]", "[#]", 1)
			if f == strings.Replace(r, "["+pi+"]", "[#]", 1) {
				infos[bo] = cmpInfo{f, false}
				fieldSet[f] = true
			}
		}
	})
	var fields []string
	for f := range fieldSet {
		fields = append(fields, f)
	}
	sort.Strings(fields)
	if len(fields) == 0 || len(fields) > 3 {
		return "", "", "comparator compares " + itoa(len(fields)) + " projections of its two elements"
	}
	// rel[f] ∈ {-1,0,1}: F_i ? F_j
	eval := func(rel map[string]int) (bool, bool) {
		return evalBoolFn(fn, func(v ssa.Value) (bool, bool) {
			bo, ok := v.(*ssa.BinOp)
			if !ok {
				return false, false
			}
			info, ok := infos[bo]
			if !ok {
				return false, false
			}
			r := rel[info.field]
			if !info.iLeft {
				r = -r
			}
			switch bo.Op {
			case token.LSS:
				return r < 0, true
			case token.GTR:
				return r > 0, true
			case token.LEQ:
				return r <= 0, true
			case token.GEQ:
				return r >= 0, true
			case token.EQL:
				return r == 0, true
			case token.NEQ:
				return r != 0, true
			}
			return false, false
		})
	}
	for _, f := range fields {
		var others []string
		for _, g := range fields {
			if g != f {
				others = append(others, g)
			}
		}
		ltAll, gtAll := map[bool]int{}, map[bool]int{}
		decided := true
		n := 1
		for range others {
			n *= 3
		}
		for mask := 0; mask < n; mask++ {
			rel := map[string]int{}
			m := mask
			for _, g := range others {
				rel[g] = m%3 - 1
				m /= 3
			}
			rel[f] = -1
			v, ok := eval(rel)
			if !ok {
				decided = false
			}
			ltAll[v]++
			rel[f] = 1
			v, ok = eval(rel)
			if !ok {
				decided = false
			}
			gtAll[v]++
		}
		if !decided {
			continue
		}
		switch {
		case ltAll[false] == 0 && gtAll[true] == 0:
			return "asc", f, ""
		case ltAll[true] == 0 && gtAll[false] == 0:
			return "desc", f, ""
		}
	}
	return "", "", "comparator is not a lexicographic order with a primary key (evaluated over " + itoa(len(fields)) + " projections)"
}

func itoa(i int) string {
	if i == 0 {
		return "0"
	}
	s := ""
	n := i
	if n < 0 {
		n = -n
	}
	for n > 0 {
		s = string(rune('0'+n%10)) + s
		n /= 10
	}
	if i < 0 {
		s = "-" + s
	}
	return s
}

// recvField returns the field name when v is (a load of) field f of the function's receiver
// (parameter 0), possibly through one more pointer field hop given by via (e.g. "index").
func recvFieldPath(c *Canon, v ssa.Value) string { return c.S(v) }

// storesToField lists the Store instructions of fn whose address is field `field` of a value
// whose canonical name is base (e.g. base "P0").
func storesToField(w *World, fn *ssa.Function, base, field string) []*ssa.Store {
	c := NewCanon(w)
	var out []*ssa.Store
	allInstrs(fn, func(in ssa.Instruction) {
		st, ok := in.(*ssa.Store)
		if !ok {
			return
		}
		fa, ok := st.Addr.(*ssa.FieldAddr)
		if !ok {
			return
		}
		if fieldName(fa.X.Type(), fa.Field) == field && c.S(fa.X) == base {
			out = append(out, st)
		}
	})
	return out
}

// fnShort prints a function's package-relative name.
func fnShort(w *World, fn *ssa.Function) string { return w.Name(fn) }

// isSortCall: sort.Slice(x, less) or slices.SortFunc(x, cmp).
func isSortCall(cc *ssa.CallCommon) bool {
	n := calleeName(cc)
	return n == "sort.Slice" || strings.HasPrefix(n, "slices.SortFunc")
}

// sortDirection: direction and key of the ordering a sort call imposes.
func sortDirection(w *World, cc *ssa.CallCommon) (dir, field, why string) {
	if calleeName(cc) == "sort.Slice" {
		cmp := closureArg(cc, 1)
		if cmp == nil {
			return "", "", "comparator is not a function literal"
		}
		return comparatorDirection(w, cmp)
	}
	if len(cc.Args) < 2 {
		return "", "", "sort call without comparator"
	}
	var f *ssa.Function
	switch x := cc.Args[1].(type) {
	case *ssa.Function:
		f = x
	case *ssa.MakeClosure:
		f, _ = x.Fn.(*ssa.Function)
	case *ssa.ChangeType:
		f, _ = x.X.(*ssa.Function)
	}
	if f == nil {
		return "", "", "comparator is not a known function"
	}
	return threeWayDirection(w, f)
}

// threeWayDirection decides a comparator cmp(a, b) int by evaluation: for each relation of the one projection it compares
// (a.f < b.f, =, >) the sign it returns. Ascending: negative, zero, positive; descending: the reverse.
func threeWayDirection(w *World, fn *ssa.Function) (dir, field, why string) {
	if len(fn.Params) < 2 || len(fn.Blocks) == 0 {
		return "", "", "comparator has fewer than two parameters"
	}
	c := NewCanon(w)
	np := len(fn.Params)
	pa, pb := "P"+itoa(np-2), "P"+itoa(np-1)
	proj := func(s, p string) (string, bool) {
		if strings.HasPrefix(s, p+".") {
			return s[len(p):], true
		}
		return "", false
	}
	sign := func(rel int) (int, string, bool) {
		b := fn.Blocks[0]
		f := ""
		for steps := 0; steps < 32; steps++ {
			switch t := b.Instrs[len(b.Instrs)-1].(type) {
			case *ssa.If:
				bo, ok := t.Cond.(*ssa.BinOp)
				if !ok {
					return 0, "", false
				}
				l, r := c.S(bo.X), c.S(bo.Y)
				fl, okA := proj(l, pa)
				fr, okB := proj(r, pb)
				swapped := false
				if !okA || !okB {
					fl, okA = proj(l, pb)
					fr, okB = proj(r, pa)
					swapped = true
				}
				if !okA || !okB || fl != fr {
					return 0, "", false
				}
				if f != "" && f != fl {
					return 0, "", false
				}
				f = fl
				rr := rel // relation of left operand to right operand
				if swapped {
					rr = -rel
				}
				var val bool
				switch bo.Op {
				case token.LSS:
					val = rr < 0
				case token.LEQ:
					val = rr <= 0
				case token.GTR:
					val = rr > 0
				case token.GEQ:
					val = rr >= 0
				case token.EQL:
					val = rr == 0
				case token.NEQ:
					val = rr != 0
				default:
					return 0, "", false
				}
				if val {
					b = b.Succs[0]
				} else {
					b = b.Succs[1]
				}
			case *ssa.Jump:
				b = b.Succs[0]
			case *ssa.Return:
				switch x := t.Results[0].(type) {
				case *ssa.Const:
					if x.Value == nil {
						return 0, "", false
					}
					v := x.Int64()
					switch {
					case v < 0:
						return -1, f, true
					case v > 0:
						return 1, f, true
					}
					return 0, f, true
				case *ssa.Call:
					if strings.HasPrefix(calleeName(x.Common()), "cmp.Compare") && len(x.Call.Args) == 2 {
						l, r := c.S(x.Call.Args[0]), c.S(x.Call.Args[1])
						if fl, ok := proj(l, pa); ok {
							if fr, ok := proj(r, pb); ok && fl == fr {
								return rel, fl, true
							}
						}
						if fl, ok := proj(l, pb); ok {
							if fr, ok := proj(r, pa); ok && fl == fr {
								return -rel, fl, true
							}
						}
					}
				}
				return 0, "", false
			default:
				return 0, "", false
			}
		}
		return 0, "", false
	}
	lt, f1, ok1 := sign(-1)
	eq, _, ok2 := sign(0)
	gt, f3, ok3 := sign(1)
	if !ok1 || !ok2 || !ok3 {
		return "", "", "three-way comparator could not be evaluated"
	}
	field = f1
	if field == "" {
		field = f3
	}
	switch {
	case lt < 0 && eq == 0 && gt > 0:
		return "asc", "[#]" + field, ""
	case lt > 0 && eq == 0 && gt < 0:
		return "desc", "[#]" + field, ""
	}
	return "", "", "three-way comparator is not a strict ordering on one projection"
}

// capturedValue: v is a load of a variable captured by a closure, the variable is written exactly once (in the function
// that declares it, before the closure is made) and never through any closure: the value written. Otherwise v itself.
// (`hasText := len(s.text) > 0` computed once and tested inside goroutine bodies.)
func capturedValue(v ssa.Value) ssa.Value {
	ld, ok := v.(*ssa.UnOp)
	if !ok || ld.Op != token.MUL {
		return v
	}
	var cell *ssa.Alloc
	var made ssa.Instruction
	switch x := ld.X.(type) {
	case *ssa.FreeVar:
		fn := x.Parent()
		idx := -1
		for i, f := range fn.FreeVars {
			if f == x {
				idx = i
			}
		}
		parent := fn.Parent()
		if idx < 0 || parent == nil {
			return v
		}
		allInstrs(parent, func(in ssa.Instruction) {
			if mc, ok := in.(*ssa.MakeClosure); ok && mc.Fn == ssa.Value(fn) && idx < len(mc.Bindings) {
				if a, isA := mc.Bindings[idx].(*ssa.Alloc); isA {
					cell, made = a, mc
				}
			}
		})
	case *ssa.Alloc:
		// the declaring function reads the captured variable from its cell as well
		if !x.Heap {
			return v
		}
		cell, made = x, ld
	}
	if cell == nil || cell.Referrers() == nil {
		return v
	}
	var store *ssa.Store
	for _, ref := range *cell.Referrers() {
		switch x := ref.(type) {
		case *ssa.Store:
			if x.Addr != ssa.Value(cell) || store != nil {
				return v
			}
			store = x
		case *ssa.UnOp:
			if x.Op != token.MUL {
				return v
			}
		case *ssa.MakeClosure:
			// no closure may write the cell
			cf, _ := x.Fn.(*ssa.Function)
			if cf == nil {
				return v
			}
			for i, b := range x.Bindings {
				if b != ssa.Value(cell) || i >= len(cf.FreeVars) || cf.FreeVars[i].Referrers() == nil {
					continue
				}
				for _, r2 := range *cf.FreeVars[i].Referrers() {
					if u, isLoad := r2.(*ssa.UnOp); !isLoad || u.Op != token.MUL {
						return v
					}
				}
			}
		case *ssa.DebugRef:
		default:
			return v
		}
	}
	if store == nil || !domInstr(store, made) {
		return v
	}
	return store.Val
}

// isNilConst: the untyped-nil constant of a pointer / slice / map / interface type.
func isNilConst(v ssa.Value) bool {
	k, ok := v.(*ssa.Const)
	return ok && k.IsNil()
}

// paramOfType: the index (receiver = 0) of fn's only parameter whose type prints as one of the given strings; def when
// there is none or more than one. Rules name the parameters of unexported helpers by type, not by position.
func paramOfType(fn *ssa.Function, def int, types ...string) int {
	found := -1
	for i, p := range fn.Params {
		t := tstr(p.Type(), nil)
		for _, want := range types {
			if t == want {
				if found >= 0 {
					return def
				}
				found = i
			}
		}
	}
	if found < 0 {
		return def
	}
	return found
}

package main

func init() {
	register("C19", propMeta{
		Explanation: "Laws of the post-processing helpers that are visible in the code: six aggregations (input filed by id over the whole input, one output per key of the per-id map, definitional sum / max / mean shape, best-first comparator per modality, the input returned unchanged only when empty); LimitResults = results[:sanitizeK(k,len)] with sanitizeK's table; AutocutResults identity when disabled/empty else a prefix cut at Autocut(scores), every Autocut return within [0,len]; four fusions as key/value tables over (id present in the other map, order of the two scores) equal to the specification (union / max / intersection-min / RRF 1/(K+rank) with best-first ranks), none writing its inputs; scoreMapToRanks swap table; mergeResults table (store ⇔ new ∨ higher) and one output per id; kind factories select the implementation whose Kind() is the requested constant.",
		NotDecided:  "sums / means / order-independence up to float rounding; that Autocut's diff[i-2] access is never reached for len 2 (holds only by a floating-point argument); NaN ordering.",
		Assumptions: []string{"sort.Slice orders by less", "Go map range visits every key once"},
	}, func(r *Run) {
		ruleSanitizeK(r, "C19.ORD.k")
		ruleAggregations(r, "C19")
		ruleLimitAutocut(r, "C19")
		ruleFusions(r, "C19")
		ruleFusionDefaults(r, "C19.DEFAULTS")
		ruleMerge(r, "C19")
		ruleKindFactories(r, "C19")
		r.FloorCheck("C19.AGG", 30)
		r.FloorCheck("C19.KEYS", 4)
		r.FloorCheck("C19.IMM", 5)
		r.FloorCheck("C19.LIMIT", 5)
		r.FloorCheck("C19.MERGE", 3)
		r.FloorCheck("C19.KIND", 3)
	})
}

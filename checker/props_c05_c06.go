package main

import (
	"fmt"

	"golang.org/x/tools/go/ssa"
)

func init() {
	register("C05", propMeta{
		Explanation: "Structural necessary conditions of 'hybrid search = metadata pre-filter, per-modality top-k, fusion, ranking': the metadata candidate list (complete, passed to both sub-searches, guarded by the very list's non-emptiness); empty-candidate exit before any sub-search; nil tests of unconfigured modalities; the fusion dispatch and metadata-only fill table over all states of (Vn,Tn,VQ,TQ,Cn) by path enumeration; same k to both modalities, descending comparator, guarded truncation; forwarding of nProbes/efSearch/threshold/aggregation/cutoff; fusion laws (C19 rules on fusion.go).",
		NotDecided:  "exactness of the sub-results themselves (C01/C03), numeric score values.",
		Assumptions: []string{"sub-index searches satisfy C01-C04", "sort.Slice orders by less"},
	}, func(r *Run) {
		ruleErrProp(r, "C05.ERRPROP", "hybrid_search_index")
		k, err := hybridKindOf(r.W)
		if err != nil {
			r.Unres("C05.KIND", "hybrid", err.Error())
			return
		}
		ruleHybridCandidates(r, k)
		ruleHybridBranch(r, k)
		ruleHybridRank(r, k)
		// the modalities the hybrid search composes (anchors: fusion.go, flat / bm25 / metadata search)
		ruleFusions(r, "C05")
		ruleFusionDefaults(r, "C05.DEFAULTS")
		ruleDocumentFilter(r, "C05.FILTER")
		nb := 0
		for _, T := range builderTypes(r.W, "HybridSearch", "MetadataSearch", "TextSearch") {
			nb += ruleBuilders(r, "C05.BLD", T)
		}
		if nb < 25 {
			r.add("C05.BLD", "floor", "-", fmt.Sprintf("%d builder methods on the hybrid / text / metadata search types, floor is 25", nb), Floor)
		}
		if fk, err := kindByName(r.W, "flat"); err == nil {
			ruleScanADM(r, "C05.ADM.flat", fk, admSpec{DEL: true, SKIP: true, THR: true})
			ruleResultOrder(r, "C05.ORD.flat", fk)
			ruleTopK(r, "C05.TOPK.flat", fk)
			ruleVecAtomicAndRevive(r, fk)
		}
		if tk, err := textKindOf(r.W); err == nil {
			ruleBM25ADM(r, "C05.ADM.bm25", tk)
			ruleBM25TopK(r, "C05.HEAP.bm25", tk)
		}
		if mk, err := metaKindOf(r.W); err == nil {
			ruleMetaFresh(r, "C05.FRESH.meta", mk)
			ruleMetaLogic(r, "C05.LOGIC.meta", mk)
		}
		// a removed document must leave every modality it was added to (C06.RM, hybrid instance)
		if hk, err := hybridKindOf(r.W); err == nil {
			ruleHybridRemove(r, hk)
			ruleHybridFlagTables(r, hk, "C05.FLAGS")
			ruleForwardGuards(r, "C05.PARAMS", []*ssa.Function{hk.Execute}, map[string]bool{"WithNProbes": true, "WithEfSearch": true, "WithThreshold": true}, 3)
		}
		r.FloorCheck("C05.CAND", 6)
		r.FloorCheck("C05.BRANCH", 3)
		r.FloorCheck("C05.K", 4)
		r.FloorCheck("C05.PARAMS", 5)
	})

	register("C06", propMeta{
		Explanation: "Structural necessary conditions of 'writes are all-or-nothing, removals total, remove+add updates': hybrid add rollback on every later error path (with the flags the rollback depends on); metadata Add validates before it mutates (validated type set ⊆ handled type set makes the residual default infeasible); vector Adds have no error return after a state write; for each of the five vector kinds and BM25 a re-added soft-deleted id is purged (flush body, which always clears) before any write to the state the purge maintains; hybrid Remove: lookup first, unknown ⇒ error, forgets the id, covers every sub-index Add may write, later sub-removals infallible; the global id counter is only touched by atomic.AddUint32(…,1).",
		NotDecided:  "'every later result unchanged' as a behavioural equality; ids across processes.",
		Assumptions: []string{"sub-index Remove is a soft delete", "sync/atomic semantics"},
	}, func(r *Run) {
		ruleErrProp(r, "C06.ERRPROP", "hybrid_search_index", "bm25_index.go", "metadata_index.go", "flat_index.go", "hnsw_index.go", "ivf_index.go", "ivfpq_index.go", "pq_index.go")
		hk, err := hybridKindOf(r.W)
		if err != nil {
			r.Unres("C06.KIND", "hybrid", err.Error())
			return
		}
		mk, err := metaKindOf(r.W)
		if err != nil {
			r.Unres("C06.KIND", "metadata", err.Error())
			return
		}
		tk, err := textKindOf(r.W)
		if err != nil {
			r.Unres("C06.KIND", "text", err.Error())
			return
		}
		ks, err := vecKinds(r.W)
		if err != nil {
			r.Unres("C06.KIND", "vector", err.Error())
			return
		}
		ruleHybridAtomicAdd(r, hk)
		ruleMetaAtomicAdd(r, "C06.ATOMIC.meta", mk)
		for _, k := range ks {
			ruleVecAtomicAndRevive(r, k)
			ruleRemoveMarks(r, "C06.REMOVE", k)
		}
		// an added vector is findable at once in every kind: HNSW links / entry hand-over (C12 rules, same anchors)
		ruleHNSWLinkEntry(r, "C06.HNSW")
		ruleTextRevive(r, tk)
		ruleBM25Replace(r, "C06.REPL", tk)
		ruleTextRemoveMarks(r, "C06.REMOVE", tk)
		ruleMetaRemoveCovers(r, "C06.RM.meta", mk)
		ruleHybridRemove(r, hk)
		ruleHybridFlagTables(r, hk, "C06.FLAGS")
		ruleIDCounter(r, "C06.ID")
		r.FloorCheck("C06.ATOMIC.hybrid", 4)
		r.FloorCheck("C06.REVIVE", 12)
		r.FloorCheck("C06.RM", 6)
		r.FloorCheck("C06.ATOMIC.vec", 5)
	})
}

package main

// graph.go — instruction-level control-flow queries: dominance, reach-avoid, return classes, loops.

import (
	"go/token"
	"go/types"

	"golang.org/x/tools/go/ssa"
)

func instrIndex(in ssa.Instruction) int {
	for i, x := range in.Block().Instrs {
		if x == in {
			return i
		}
	}
	return -1
}

// domInstr reports whether a dominates b (every path from entry to b executes a first).
func domInstr(a, b ssa.Instruction) bool {
	if a.Block() == b.Block() {
		return instrIndex(a) < instrIndex(b)
	}
	return a.Block().Dominates(b.Block())
}

type instrPred func(ssa.Instruction) bool

// reachAvoid searches for a path that starts just after `from` (or at the function entry
// when from == nil, fn must then be given) and reaches an instruction satisfying target
// without first executing an instruction satisfying avoid. It returns the first such target.
func reachAvoid(fn *ssa.Function, from ssa.Instruction, target, avoid instrPred) ssa.Instruction {
	if from == nil {
		if len(fn.Blocks) == 0 {
			return nil
		}
		return reachAvoidAt(fn.Blocks[0], 0, target, avoid)
	}
	return reachAvoidAt(from.Block(), instrIndex(from)+1, target, avoid)
}

// reachAvoidAt is reachAvoid starting at instruction i of block b (inclusive).
func reachAvoidAt(b0 *ssa.BasicBlock, i0 int, target, avoid instrPred) ssa.Instruction {
	type pos struct {
		b *ssa.BasicBlock
		i int
	}
	start := pos{b0, i0}
	seen := map[*ssa.BasicBlock]bool{}
	var scan func(b *ssa.BasicBlock, i int) ssa.Instruction
	scan = func(b *ssa.BasicBlock, i int) ssa.Instruction {
		for ; i < len(b.Instrs); i++ {
			in := b.Instrs[i]
			if target(in) {
				return in
			}
			if avoid != nil && avoid(in) {
				return nil
			}
		}
		for _, s := range b.Succs {
			if seen[s] {
				continue
			}
			seen[s] = true
			if r := scan(s, 0); r != nil {
				return r
			}
		}
		return nil
	}
	return scan(start.b, start.i)
}

// allInstrs calls f on every instruction of fn (skipping the synthetic recover block).
func allInstrs(fn *ssa.Function, f func(ssa.Instruction)) {
	for _, b := range fn.Blocks {
		if b == fn.Recover {
			continue
		}
		for _, in := range b.Instrs {
			f(in)
		}
	}
}

// callsIn returns the call instructions (call, defer, go) of fn whose callee satisfies pred.
func callsIn(fn *ssa.Function, pred func(*ssa.CallCommon) bool) []ssa.CallInstruction {
	var out []ssa.CallInstruction
	allInstrs(fn, func(in ssa.Instruction) {
		if c, ok := in.(ssa.CallInstruction); ok && pred(c.Common()) {
			out = append(out, c)
		}
	})
	return out
}

func isCallTo(in ssa.Instruction, names ...string) bool {
	c, ok := in.(ssa.CallInstruction)
	if !ok {
		return false
	}
	n := calleeName(c.Common())
	for _, x := range names {
		if n == x {
			return true
		}
	}
	return false
}

// ---------------------------------------------------------------- return classification

type ErrClass int

const (
	ErrNil ErrClass = iota
	ErrNonNil
	ErrMaybe
)

func (e ErrClass) String() string { return [...]string{"nil", "non-nil", "maybe-nil"}[e] }

var errorType = types.Universe.Lookup("error").Type()

// returns lists the return instructions of fn (excluding the recover block).
func returnsOf(fn *ssa.Function) []*ssa.Return {
	var out []*ssa.Return
	for _, b := range fn.Blocks {
		if b == fn.Recover || len(b.Instrs) == 0 {
			continue
		}
		if r, ok := b.Instrs[len(b.Instrs)-1].(*ssa.Return); ok {
			out = append(out, r)
		}
	}
	return out
}

// resultValue resolves result i of a return, looking through the defer-spill cells that
// go/ssa introduces for functions with defer (`*t1 = v; rundefers; t9 = *t1; return t9`).
func resultValue(r *ssa.Return, i int) ssa.Value {
	v := r.Results[i]
	if u, ok := v.(*ssa.UnOp); ok && u.Op == token.MUL {
		if a, ok := u.X.(*ssa.Alloc); ok {
			// last store to a in this block before the load
			b := r.Block()
			var last ssa.Value
			for _, in := range b.Instrs {
				if in == ssa.Instruction(u) {
					break
				}
				if st, ok := in.(*ssa.Store); ok && st.Addr == a {
					last = st.Val
				}
			}
			if last != nil {
				return last
			}
		}
	}
	return v
}

// errIndex returns the index of the (last) error-typed result of fn, or -1.
func errIndex(fn *ssa.Function) int {
	res := fn.Signature.Results()
	for i := res.Len() - 1; i >= 0; i-- {
		if types.Identical(res.At(i).Type(), errorType) {
			return i
		}
	}
	return -1
}

// classifyErr decides whether the error result of r is the nil constant, provably non-nil
// (constructed by fmt.Errorf/errors.New, or guarded by a dominating `v != nil` test), or unknown.
func classifyErr(r *ssa.Return) ErrClass {
	fn := r.Parent()
	i := errIndex(fn)
	if i < 0 {
		return ErrNil
	}
	return classifyErrVal(resultValue(r, i), r.Block())
}

// errorOrigins counts the distinct provably non-nil error values that can reach a return of fn (through phis: a function
// that assigns `err = …` in the arms of a switch and returns err once has as many origins as one with a return per arm).
func errorOrigins(fn *ssa.Function) int {
	i := errIndex(fn)
	if i < 0 {
		return 0
	}
	seen := map[ssa.Value]bool{}
	n := 0
	var visit func(v ssa.Value, at *ssa.BasicBlock)
	visit = func(v ssa.Value, at *ssa.BasicBlock) {
		if seen[v] {
			return
		}
		seen[v] = true
		if ph, ok := v.(*ssa.Phi); ok {
			for j, e := range ph.Edges {
				visit(e, ph.Block().Preds[j])
			}
			return
		}
		if classifyErrVal(v, at) == ErrNonNil {
			n++
		}
	}
	for _, ret := range returnsOf(fn) {
		visit(resultValue(ret, i), ret.Block())
	}
	return n
}

func classifyErrVal(v ssa.Value, at *ssa.BasicBlock) ErrClass {
	switch x := v.(type) {
	case *ssa.Const:
		if x.Value == nil {
			return ErrNil
		}
	case *ssa.Call:
		switch calleeName(x.Common()) {
		case "fmt.Errorf", "errors.New":
			return ErrNonNil
		}
	case *ssa.MakeInterface:
		return ErrNonNil
	case *ssa.Global:
		return ErrNonNil
	case *ssa.UnOp:
		if _, ok := x.X.(*ssa.Global); ok && x.Op == token.MUL {
			return ErrNonNil // sentinel error variable such as ErrZeroVector
		}
	}
	// guarded by a dominating test `v != nil` (true branch) or `v == nil` (false branch)
	for b := at; b != nil; b = b.Idom() {
		d := b.Idom()
		if d == nil || len(d.Instrs) == 0 {
			continue
		}
		iff, ok := d.Instrs[len(d.Instrs)-1].(*ssa.If)
		if !ok {
			continue
		}
		bo, ok := iff.Cond.(*ssa.BinOp)
		if !ok {
			continue
		}
		isNil := func(y ssa.Value) bool { c, ok := y.(*ssa.Const); return ok && c.Value == nil }
		if !(bo.X == v && isNil(bo.Y) || bo.Y == v && isNil(bo.X)) {
			continue
		}
		var branch *ssa.BasicBlock
		if bo.Op == token.NEQ {
			branch = d.Succs[0]
		} else if bo.Op == token.EQL {
			branch = d.Succs[1]
		}
		if branch != nil && len(branch.Preds) == 1 && (branch == b || branch.Dominates(b)) {
			return ErrNonNil
		}
		var nilBranch *ssa.BasicBlock
		if bo.Op == token.NEQ {
			nilBranch = d.Succs[1]
		} else if bo.Op == token.EQL {
			nilBranch = d.Succs[0]
		}
		if nilBranch != nil && len(nilBranch.Preds) == 1 && (nilBranch == b || nilBranch.Dominates(b)) {
			return ErrNil
		}
	}
	return ErrMaybe
}

// ---------------------------------------------------------------- loops

// Loop is a natural loop.
type Loop struct {
	Header *ssa.BasicBlock
	Blocks map[*ssa.BasicBlock]bool
}

// loopsOf returns the natural loops of fn, keyed by header (loops sharing a header are merged).
func loopsOf(fn *ssa.Function) []*Loop {
	byHeader := map[*ssa.BasicBlock]*Loop{}
	var order []*ssa.BasicBlock
	for _, n := range fn.Blocks {
		for _, h := range n.Succs {
			if h.Dominates(n) || h == n { // back edge n -> h
				l := byHeader[h]
				if l == nil {
					l = &Loop{Header: h, Blocks: map[*ssa.BasicBlock]bool{h: true}}
					byHeader[h] = l
					order = append(order, h)
				}
				// nodes that reach n without passing through h
				var stack []*ssa.BasicBlock
				if !l.Blocks[n] {
					l.Blocks[n] = true
					stack = append(stack, n)
				}
				for len(stack) > 0 {
					x := stack[len(stack)-1]
					stack = stack[:len(stack)-1]
					for _, p := range x.Preds {
						if !l.Blocks[p] {
							l.Blocks[p] = true
							stack = append(stack, p)
						}
					}
				}
			}
		}
	}
	var out []*Loop
	for _, h := range order {
		out = append(out, byHeader[h])
	}
	return out
}

// innermostLoop returns the smallest loop containing block b (nil if none).
func innermostLoop(loops []*Loop, b *ssa.BasicBlock) *Loop {
	var best *Loop
	for _, l := range loops {
		if l.Blocks[b] && (best == nil || len(l.Blocks) < len(best.Blocks)) {
			best = l
		}
	}
	return best
}

// ---------------------------------------------------------------- path-resolved success returns

// resolveOnPath follows phi nodes along a concrete path (position-aware) until a non-phi value is reached.
func resolveOnPath(p *Path, v ssa.Value) ssa.Value {
	for i := 0; i < 8; i++ {
		ph, ok := v.(*ssa.Phi)
		if !ok {
			return v
		}
		at := -1
		for j, b := range p.Blocks {
			if b == ph.Block() {
				at = j
			}
		}
		if at < 0 {
			return v
		}
		e := p.PhiEdgeAt(ph, at)
		if e == nil {
			return v
		}
		v = e
	}
	return v
}

// pathErrClass classifies the error result of the return that ends path p, resolving phis along the path
// (single-exit style: `var err error; switch { … err = … }; return err`).
func pathErrClass(p *Path) ErrClass {
	if p.Ret == nil {
		return ErrMaybe
	}
	fn := p.Ret.Parent()
	i := errIndex(fn)
	if i < 0 {
		return ErrNil
	}
	v := resolveOnPath(p, resultValue(p.Ret, i))
	return classifyErrVal(v, p.Ret.Block())
}

// successEscapes searches for a path from the entry of fn to a return whose error is not provably non-nil that executes no
// instruction satisfying must. It enumerates paths (each block at most twice) and resolves the returned error per path;
// if the enumeration is truncated it falls back to the path-insensitive reach-avoid query (conservative).
// extra, when non-nil, restricts which returns count (e.g. "not the already-closed return").
func successEscapes(fn *ssa.Function, must instrPred, extra func(*ssa.Return) bool) ssa.Instruction {
	paths, trunc := enumPaths(fn.Blocks[0], walkCfg{MaxVisits: 2, MaxPaths: 30000})
	if trunc {
		return reachAvoid(fn, nil, func(in ssa.Instruction) bool {
			ret, ok := in.(*ssa.Return)
			return ok && classifyErr(ret) != ErrNonNil && (extra == nil || extra(ret))
		}, must)
	}
	for _, p := range paths {
		if p.End != EndReturn || !p.Feasible() {
			continue
		}
		if extra != nil && !extra(p.Ret) {
			continue
		}
		if pathErrClass(p) == ErrNonNil {
			continue
		}
		hit := false
		for _, in := range p.Instrs() {
			if must(in) {
				hit = true
				break
			}
		}
		if !hit {
			return p.Ret
		}
	}
	return nil
}

// onlyFailsFrom: every path from the beginning of block b reaches a return whose error is provably non-nil (resolved along
// the path: `err = …; break; … if err != nil { return err }` counts) without executing an instruction satisfying effect.
// Returns nil when that holds, else an offending instruction (the effect, the success return, or b's first instruction
// when the enumeration was cut short).
func onlyFailsFrom(b *ssa.BasicBlock, effect instrPred) ssa.Instruction {
	paths, trunc := enumPaths(b, walkCfg{MaxVisits: 2, MaxPaths: 5000})
	if trunc || len(paths) == 0 {
		return b.Instrs[0]
	}
	for _, p := range paths {
		if !p.Feasible() {
			continue
		}
		if effect != nil {
			for _, in := range p.Instrs() {
				if effect(in) {
					return in
				}
			}
		}
		switch p.End {
		case EndReturn:
			if pathErrClass(p) != ErrNonNil {
				return p.Ret
			}
		case EndPanic:
		default:
			return b.Instrs[0]
		}
	}
	return nil
}

// alwaysDoes: every path from g's entry to a return passes an instruction satisfying must — directly, or through a
// static call to a same-package function that always does (bounded depth). A call to such a g is as good as the
// instruction itself for must-pass-through rules.
func alwaysDoes(g *ssa.Function, must instrPred, depth int) bool {
	if g == nil || len(g.Blocks) == 0 {
		return false
	}
	m := liftMust(g, must, depth)
	found := false
	allInstrs(g, func(in ssa.Instruction) {
		if m(in) {
			found = true
		}
	})
	if !found {
		return false
	}
	return reachAvoid(g, nil, func(in ssa.Instruction) bool { _, ok := in.(*ssa.Return); return ok }, m) == nil
}

// liftMust extends must to calls of same-package functions that always perform it.
func liftMust(fn *ssa.Function, must instrPred, depth int) instrPred {
	memo := map[*ssa.Function]bool{}
	return func(in ssa.Instruction) bool {
		if must(in) {
			return true
		}
		if depth <= 0 {
			return false
		}
		call, ok := in.(*ssa.Call)
		if !ok {
			return false
		}
		g := staticCallee(call.Common())
		if g == nil || g == fn || g.Pkg != fn.Pkg {
			return false
		}
		if v, ok := memo[g]; ok {
			return v
		}
		memo[g] = false
		v := alwaysDoes(g, must, depth-1)
		memo[g] = v
		return v
	}
}

// successEscapesWrap adapts successEscapes to the (fn, avoid) call shape.
func successEscapesWrap(fn *ssa.Function, must instrPred) ssa.Instruction {
	return successEscapes(fn, must, nil)
}

// allPathsFail: every feasible path from start ends in a return whose error is non-nil on that path (the verdict of a
// validation may travel through a variable to the exit: `if err := validate(); err != nil { return nil, err }` once the
// validation is inlined).
func allPathsFail(start *ssa.BasicBlock) bool {
	if len(start.Instrs) > 0 {
		if ret, ok := start.Instrs[len(start.Instrs)-1].(*ssa.Return); ok && classifyErr(ret) == ErrNonNil {
			return true
		}
	}
	paths, trunc := enumPaths(start, walkCfg{MaxVisits: 1, MaxPaths: 2000 * pathScale, Decide: decideOnPath})
	if trunc || len(paths) == 0 {
		return false
	}
	n := 0
	for _, p := range paths {
		if !p.Feasible() {
			continue
		}
		n++
		if p.End != EndReturn || pathErrClass(p) != ErrNonNil {
			return false
		}
	}
	return n > 0
}

// cellValueOnPath: v is a load of a local variable's cell; the value the cell holds at that load on path p (the last store
// to the cell executed before it). Loads of loads are followed. Otherwise v.
func cellValueOnPath(p *Path, v ssa.Value) ssa.Value {
	for depth := 0; depth < 6; depth++ {
		v = resolveOnPath(p, v)
		ld, ok := v.(*ssa.UnOp)
		if !ok || ld.Op != token.MUL {
			return v
		}
		cell, ok := ld.X.(*ssa.Alloc)
		if !ok {
			return v
		}
		var last ssa.Value
		found := false
		for _, in := range p.Instrs() {
			if in == ssa.Instruction(ld) {
				found = true
				break
			}
			if st, isSt := in.(*ssa.Store); isSt && st.Addr == ssa.Value(cell) {
				last = st.Val
			}
		}
		if !found {
			// the load is in the stop block, which is not executed on the path: scan that block up to the load
			if len(p.Blocks) > 0 {
				for _, in := range p.Blocks[len(p.Blocks)-1].Instrs {
					if in == ssa.Instruction(ld) {
						found = true
						break
					}
					if st, isSt := in.(*ssa.Store); isSt && st.Addr == ssa.Value(cell) {
						last = st.Val
					}
				}
			}
		}
		if !found || last == nil {
			return v
		}
		v = last
	}
	return v
}

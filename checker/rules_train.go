package main

// rules_train.go — training / quantisation rules (C20) and argmin rules shared with C13, C14, C15.

import (
	"fmt"
	"go/constant"
	"go/token"
	"go/types"
	"sort"
	"strings"

	"golang.org/x/tools/go/ssa"
)

// reachableComet returns the comet functions reachable from roots through static calls, closures and interface
// invocations (resolved to every comet implementer of the interface), with a parent map for path reports.
func reachableComet(w *World, roots []*ssa.Function) (map[*ssa.Function]*ssa.Function, []*ssa.Function) {
	parent := map[*ssa.Function]*ssa.Function{}
	var order []*ssa.Function
	var queue []*ssa.Function
	for _, r := range roots {
		if r != nil {
			if _, ok := parent[r]; !ok {
				parent[r] = nil
				queue = append(queue, r)
			}
		}
	}
	for len(queue) > 0 {
		fn := queue[0]
		queue = queue[1:]
		order = append(order, fn)
		add := func(g *ssa.Function) {
			if g == nil || g.Pkg != w.SPkg || g.Blocks == nil {
				return
			}
			if _, ok := parent[g]; !ok {
				parent[g] = fn
				queue = append(queue, g)
			}
		}
		allInstrs(fn, func(in ssa.Instruction) {
			switch x := in.(type) {
			case ssa.CallInstruction:
				cc := x.Common()
				if cc.IsInvoke() {
					if iface, ok := cc.Value.Type().Underlying().(*types.Interface); ok {
						for _, T := range w.Implementers(iface) {
							add(w.Method(T, cc.Method.Name()))
						}
					}
				} else {
					add(staticCallee(cc))
				}
				for _, a := range cc.Args {
					if mc, ok := a.(*ssa.MakeClosure); ok {
						if g, ok := mc.Fn.(*ssa.Function); ok {
							add(g)
						}
					}
				}
			case *ssa.MakeClosure:
				if g, ok := x.Fn.(*ssa.Function); ok {
					add(g)
				}
			}
		})
	}
	return parent, order
}

func callPath(w *World, parent map[*ssa.Function]*ssa.Function, fn *ssa.Function) string {
	var parts []string
	for f := fn; f != nil; f = parent[f] {
		parts = append([]string{w.Name(f)}, parts...)
	}
	return strings.Join(parts, " → ")
}

var nondetPkgs = map[string]bool{"math/rand": true, "math/rand/v2": true, "crypto/rand": true, "time": true, "os": true, "runtime": true}

// ruleDeterminism: C20.DET.
func ruleDeterminism(r *Run, rule string, roots []*ssa.Function) {
	w := r.W
	r.Doc(rule, "the same input gives different output (training is not reproducible)")
	parent, order := reachableComet(w, roots)
	bad := 0
	for _, fn := range order {
		r.Analysed(w.Name(fn))
		allInstrs(fn, func(in ssa.Instruction) {
			why := ""
			switch x := in.(type) {
			case *ssa.Go:
				why = "starts a goroutine"
			case *ssa.Select:
				why = "selects on channels"
			case *ssa.Range:
				if _, ok := x.X.Type().Underlying().(*types.Map); ok {
					why = "ranges over a map (iteration order is randomised)"
				}
			case ssa.CallInstruction:
				if g := staticCallee(x.Common()); g != nil && g.Pkg != nil && nondetPkgs[g.Pkg.Pkg.Path()] {
					why = "calls " + g.String()
				}
			}
			if why != "" {
				bad++
				r.Bad(rule, fmt.Sprintf("det:%s#%d", w.Name(fn), bad), w.InstrPos(in)+" "+w.Name(fn), why+" on the path "+callPath(w, parent, fn))
			}
		})
	}
	if bad == 0 {
		r.Ok(rule, "det:reachable", "-", fmt.Sprintf("%d functions reachable from %d roots (static calls, closures, interface dispatch to every implementer): no math/rand, crypto/rand, time, os, goroutine, select or map iteration", len(order), len(roots)))
	}
	if len(order) < 10 {
		r.add(rule, "det:floor", "-", fmt.Sprintf("only %d reachable functions, floor is 10", len(order)), Floor)
	}
}

// aliasEscapes: reference-typed values rooted at an input parameter that are stored into a container which is then
// returned, stored into receiver state, or written through.
func aliasEscapes(w *World, fn *ssa.Function, skip map[int]bool) []string {
	var out []string
	type taint struct {
		container ssa.Value
		st        *ssa.Store
		param     *ssa.Parameter
	}
	var taints []taint
	containerOf := func(addr ssa.Value) ssa.Value {
		for {
			switch x := addr.(type) {
			case *ssa.IndexAddr:
				// container value: a MakeSlice, a load of a cell / field
				return x.X
			case *ssa.FieldAddr:
				addr = x.X
			default:
				return nil
			}
		}
	}
	isRef := func(t types.Type) bool {
		switch t.Underlying().(type) {
		case *types.Slice, *types.Map, *types.Pointer:
			return true
		}
		return false
	}
	allInstrs(fn, func(in ssa.Instruction) {
		st, ok := in.(*ssa.Store)
		if !ok || !isRef(st.Val.Type()) {
			return
		}
		p := paramRoot(st.Val)
		if p == nil || skip[paramIndex(p)] {
			return
		}
		// a whole parameter assigned somewhere is handled by the return / state checks below
		if c := containerOf(st.Addr); c != nil {
			taints = append(taints, taint{c, st, p})
		} else if !isLocalCell(st.Addr) {
			out = append(out, fmt.Sprintf("a slice of parameter %s is stored into longer-lived state at %s", p.Name(), w.InstrPos(st)))
		}
	})
	same := func(a, b ssa.Value) bool {
		if a == b {
			return true
		}
		ca, cb := cellOf(a), cellOf(b)
		return ca != nil && ca == cb
	}
	for _, t := range taints {
		// returned?
		for _, ret := range returnsOf(fn) {
			for i := range ret.Results {
				if same(resultValue(ret, i), t.container) {
					out = append(out, fmt.Sprintf("a slice of parameter %s stored at %s aliases the returned container: the result shares memory with the input", t.param.Name(), w.InstrPos(t.st)))
				}
			}
		}
		// written through?
		allInstrs(fn, func(in ssa.Instruction) {
			st, ok := in.(*ssa.Store)
			if !ok {
				return
			}
			ia, ok := st.Addr.(*ssa.IndexAddr)
			if !ok {
				return
			}
			// address = &E[j] where E = *(&C[i])
			if ld, ok := ia.X.(*ssa.UnOp); ok && ld.Op == token.MUL {
				if inner, ok := ld.X.(*ssa.IndexAddr); ok && same(inner.X, t.container) {
					out = append(out, fmt.Sprintf("element write at %s goes through a container that holds slices of parameter %s (stored at %s): the input is modified", w.InstrPos(st), t.param.Name(), w.InstrPos(t.st)))
				}
			}
		})
		// stored into receiver state?
		allInstrs(fn, func(in ssa.Instruction) {
			st, ok := in.(*ssa.Store)
			if !ok || !same(st.Val, t.container) || isLocalCell(st.Addr) {
				return
			}
			if p := paramRoot(st.Addr); p != nil && paramIndex(p) == 0 && fn.Signature.Recv() != nil {
				out = append(out, fmt.Sprintf("a container holding slices of parameter %s is stored into the receiver at %s", t.param.Name(), w.InstrPos(st)))
			}
		})
	}
	// returned directly
	for _, ret := range returnsOf(fn) {
		for i := range ret.Results {
			v := resultValue(ret, i)
			if mi, ok := v.(*ssa.MakeInterface); ok {
				v = mi.X
			}
			if !isRef(v.Type()) {
				continue
			}
			if p := paramRoot(v); p != nil && !skip[paramIndex(p)] && fn.Signature.Recv() != nil {
				out = append(out, fmt.Sprintf("parameter %s (or a slice of it) is returned at %s: the result aliases the input", p.Name(), w.InstrPos(ret)))
			}
		}
	}
	return dedup(out)
}

// ruleNoAlias applies aliasEscapes + writesThroughParams to a list of functions.
func ruleNoAlias(r *Run, rule string, fns []*ssa.Function) {
	w := r.W
	r.Doc(rule, "training / quantisation modifies its input, or its output shares memory with the input (a later in-place normalisation of the input moves a centroid)")
	for _, fn := range fns {
		if fn == nil {
			continue
		}
		name := w.Name(fn)
		r.Analysed(name)
		skip := map[int]bool{}
		if fn.Signature.Recv() != nil {
			skip[0] = true
		}
		ws := append(writesThroughParams(w, fn, skip), aliasEscapes(w, fn, skip)...)
		site := w.Pos(fn.Pos()) + " " + name
		if len(ws) > 0 {
			r.Bad(rule, "noalias:"+name, site, strings.Join(ws, "; "))
		} else {
			r.Ok(rule, "noalias:"+name, site, "no write through a parameter; no slice of a parameter stored into a returned / written / receiver container")
		}
	}
}

// ruleArgmins: every "nearest" selection loop is an argmin: update ⇔ d < min, starting from +Inf / index 0,
// over all candidates. Returns the number of instances.
func ruleArgmins(r *Run, rule string, fns []*ssa.Function) int {
	w := r.W
	r.Doc(rule, "the nearest centroid / codeword is not the one selected")
	n := 0
	for _, fn := range fns {
		if fn == nil {
			continue
		}
		name := w.Name(fn)
		c := NewCanon(w)
		for _, b := range fn.Blocks {
			for _, in := range b.Instrs {
				M, ok := in.(*ssa.Phi)
				if !ok {
					break
				}
				if !isFloat32(M.Type()) || M.Comment == "rangeindex" {
					continue
				}
				// init = +Inf
				isInf := false
				for i, e := range M.Edges {
					if !b.Dominates(b.Preds[i]) && strings.Contains(c.S(e), "math.Inf(c(1))") {
						isInf = true
					}
				}
				if !isInf {
					continue
				}
				loop := innermostLoop(loopsOf(fn), b)
				if loop == nil || loop.Header != b {
					continue
				}
				n++
				r.Analysed(name)
				key := fmt.Sprintf("argmin:%s#%d", name, n)
				site := w.InstrPos(M) + " " + name
				// companion index phi (int, init 0) in the same header
				var I *ssa.Phi
				for _, in2 := range b.Instrs {
					ph, ok := in2.(*ssa.Phi)
					if !ok {
						break
					}
					if ph == M || ph.Comment == "rangeindex" {
						continue
					}
					if bt, ok := ph.Type().Underlying().(*types.Basic); ok && bt.Info()&types.IsInteger != 0 {
						for i, e := range ph.Edges {
							if !b.Dominates(b.Preds[i]) && isZeroConst(e) {
								// not the loop counter: the counter is compared with the bound in the header
								counter := false
								for _, ref := range *ph.Referrers() {
									if bo, ok := ref.(*ssa.BinOp); ok && bo.Block() == b && (bo.Op == token.LSS || bo.Op == token.LEQ) {
										counter = true
									}
								}
								if !counter {
									I = ph
								}
							}
						}
					}
				}
				if I == nil {
					r.Und(rule, key, site, "index companion of the running minimum not found")
					continue
				}
				var D ssa.Value
				rows, _ := iterationPaths(loop, func(cond ssa.Value) (string, bool) {
					bo, ok := cond.(*ssa.BinOp)
					if !ok {
						return "", false
					}
					switch {
					case bo.Y == ssa.Value(M) && bo.Op == token.LSS:
						D = bo.X
						return "LT", false
					case bo.X == ssa.Value(M) && bo.Op == token.GTR:
						D = bo.Y
						return "LT", false
					case bo.Y == ssa.Value(M) && bo.Op == token.GEQ:
						D = bo.X
						return "LT", true
					case bo.X == ssa.Value(M) && bo.Op == token.LEQ:
						D = bo.Y
						return "LT", true
					}
					return "", false
				})
				bad, _ := tableCheck([]string{"LT"}, rows, func(pr pathRow) string {
					if pr.P.End != EndStop || pr.P.Blocks[len(pr.P.Blocks)-1] != loop.Header {
						return "exit"
					}
					resolve := func(v ssa.Value) ssa.Value {
						for i := 0; i < 6; i++ {
							ph, ok := v.(*ssa.Phi)
							if !ok || ph == M || ph == I || ph.Block() == loop.Header || (D != nil && v == D) {
								return v
							}
							at := -1
							for j, bb := range pr.P.Blocks {
								if bb == ph.Block() {
									at = j
								}
							}
							if at < 0 {
								return v
							}
							e := pr.P.PhiEdgeAt(ph, at)
							if e == nil {
								return v
							}
							v = e
						}
						return v
					}
					e1, e2 := resolve(pr.P.PhiEdge(M)), resolve(pr.P.PhiEdge(I))
					switch {
					case e1 == ssa.Value(M) && e2 == ssa.Value(I):
						return "keep"
					case D != nil && e1 == D && (isRangeIndex(e2) || isLoopCounter(e2, b)):
						return "take"
					}
					return "other"
				}, func(a map[string]bool) string {
					if a["LT"] {
						return "take"
					}
					return "keep"
				})
				if len(bad) > 0 || D == nil {
					r.Bad(rule, key, site, "not an argmin: "+truncList(bad, 3))
				} else {
					r.Ok(rule, key, site, "(min, argmin) ← (d, i) ⇔ d < min; start (+Inf, 0); d = "+short(c.S(D), 90))
				}
			}
		}
	}
	// a listed function that has no selection loop of its own but takes the index from another listed function's
	// argmin (kmeans calling FindNearestCentroidIndex) is covered by that function's instance
	for _, fn := range fns {
		if fn == nil || len(argminHeaders(fn)) > 0 {
			continue
		}
		for _, g := range fns {
			if g == nil || g == fn || len(argminHeaders(g)) == 0 {
				continue
			}
			calls := callsIn(fn, func(cc *ssa.CallCommon) bool { return staticCallee(cc) == g })
			if len(calls) > 0 {
				n++
				r.Ok(rule, "argmin:"+w.Name(fn)+":delegates", w.InstrPos(calls[0])+" "+w.Name(fn), "nearest selection is delegated to "+w.Name(g)+" (checked above)")
			}
		}
	}
	return n
}

// argminHeaders: the running-minimum phis (float32, initialised with +Inf at a loop header) of fn.
func argminHeaders(fn *ssa.Function) []*ssa.Phi {
	var out []*ssa.Phi
	loops := loopsOf(fn)
	for _, b := range fn.Blocks {
		for _, in := range b.Instrs {
			M, ok := in.(*ssa.Phi)
			if !ok {
				break
			}
			if !isFloat32(M.Type()) || M.Comment == "rangeindex" {
				continue
			}
			isInf := false
			for i, e := range M.Edges {
				if b.Dominates(b.Preds[i]) {
					continue
				}
				if call, ok := unwrapConv(e).(*ssa.Call); ok && calleeName(call.Common()) == "math.Inf" {
					isInf = true
				}
			}
			if l := innermostLoop(loops, b); isInf && l != nil && l.Header == b {
				out = append(out, M)
			}
		}
	}
	return out
}

func unwrapConv(v ssa.Value) ssa.Value {
	for {
		switch x := v.(type) {
		case *ssa.Convert:
			v = x.X
		case *ssa.ChangeType:
			v = x.X
		default:
			return v
		}
	}
}

// callsArgmin: in is a static call to a comet function that contains an argmin loop.
func callsArgmin(w *World, in ssa.Instruction) bool {
	call, ok := in.(*ssa.Call)
	if !ok {
		return false
	}
	g := staticCallee(call.Common())
	return g != nil && g.Pkg == w.SPkg && len(argminHeaders(g)) > 0
}

func short(s string, n int) string {
	if len(s) > n {
		return s[:n] + "…"
	}
	return s
}

// isLoopCounter: v is the phi of a canonical for-loop counter in header b (compared with a bound there).
func isLoopCounter(v ssa.Value, b *ssa.BasicBlock) bool {
	ph, ok := v.(*ssa.Phi)
	if !ok || ph.Block() != b {
		return false
	}
	for _, ref := range *ph.Referrers() {
		if bo, ok := ref.(*ssa.BinOp); ok && bo.Block() == b && (bo.Op == token.LSS || bo.Op == token.LEQ) {
			return true
		}
	}
	return false
}

// ruleKMeansShape: k clamp table, complete initialisation by copies, one assignment per vector.
func ruleKMeansShape(r *Run, p string) {
	w := r.W
	fn := w.Fn("kmeansInternal")
	if fn == nil {
		// discovered as the common callee of KMeans and KMeansSubspace
		a, b := w.Fn("KMeans"), w.Fn("KMeansSubspace")
		if a != nil && b != nil {
			for _, ca := range callsIn(a, func(cc *ssa.CallCommon) bool { return staticCallee(cc) != nil }) {
				for _, cb := range callsIn(b, func(cc *ssa.CallCommon) bool { return staticCallee(cc) != nil }) {
					if staticCallee(ca.Common()) == staticCallee(cb.Common()) && staticCallee(ca.Common()).Pkg == w.SPkg {
						fn = staticCallee(ca.Common())
					}
				}
			}
		}
	}
	if fn == nil {
		r.Unres(p+".KCLAMP", "kmeans", "k-means routine not found")
		return
	}
	// which parameters are the input rows and k: read off the exported wrapper, whose signature the tests pin
	vecIdx, kIdx := 0, 1
	if wr := w.Fn("KMeans"); wr != nil && len(wr.Params) >= 2 {
		for _, call := range callsIn(wr, func(cc *ssa.CallCommon) bool { return staticCallee(cc) == fn }) {
			for i, arg := range call.Common().Args {
				switch arg {
				case ssa.Value(wr.Params[0]):
					vecIdx = i
				case ssa.Value(wr.Params[1]):
					kIdx = i
				}
			}
		}
	}
	pK, pN := fmt.Sprintf("P%d", kIdx), fmt.Sprintf("len(P%d)", vecIdx)
	name := w.Name(fn)
	r.Analysed(name)
	r.Doc(p+".KCLAMP", "k-means returns another number of centroids than min(k, n), or panics for k > n")
	r.Doc(p+".INIT", "a centroid is left nil / aliases an input row")
	c := NewCanon(w)
	site := w.Pos(fn.Pos()) + " " + name
	// the centroid container
	var cent *ssa.MakeSlice
	allInstrs(fn, func(in ssa.Instruction) {
		if mk, ok := in.(*ssa.MakeSlice); ok && tstr(mk.Type(), nil) == "[][]float32" && cent == nil {
			cent = mk
		}
	})
	if cent == nil {
		r.Und(p+".KCLAMP", "kmeans:centroids", site, "centroid container not found")
		return
	}
	syms := []string{"k", "0", "n"}
	var bad []string
	rows := 0
	for _, ord := range weakOrders(3) {
		rank := map[string]int{}
		for i, s := range syms {
			rank[s] = ord[i]
		}
		if rank["n"] < rank["0"] {
			continue
		}
		rows++
		symOf := func(v ssa.Value) string {
			if isZeroConst(v) {
				return "0"
			}
			switch c.S(v) {
			case pK:
				return "k"
			case pN:
				return "n"
			}
			return ""
		}
		decide := func(cond ssa.Value, pth *Path) (bool, bool) {
			cnd, neg := stripNot(cond)
			bo, ok := cnd.(*ssa.BinOp)
			if !ok {
				return false, false
			}
			l, rr := symOf(bo.X), symOf(bo.Y)
			if l == "" || rr == "" {
				return false, false
			}
			rel := relOf(rank[l], rank[rr])
			var v bool
			switch bo.Op {
			case token.LSS:
				v = rel == LT
			case token.LEQ:
				v = rel != GT
			case token.GTR:
				v = rel == GT
			case token.GEQ:
				v = rel != LT
			case token.EQL:
				v = rel == EQ
			case token.NEQ:
				v = rel != EQ
			default:
				return false, false
			}
			return v != neg, true
		}
		paths, _ := enumPaths(fn.Blocks[0], walkCfg{Decide: decide, Stop: func(b *ssa.BasicBlock) bool { return b == cent.Block() }, MaxVisits: 1, MaxPaths: 200})
		want := "k"
		switch {
		case rank["k"] <= rank["0"] || rank["n"] == rank["0"]:
			want = "nil"
		case rank["k"] > rank["n"]:
			want = "n"
		case rank["k"] == rank["n"]:
			want = "k|n"
		}
		outs := map[string]bool{}
		for _, pth := range paths {
			switch pth.End {
			case EndReturn:
				if s, _ := constString(pth.Ret.Results[0]); pth.Ret.Results[0] != nil && (s == "" || s == "nil") {
					if cst, ok := pth.Ret.Results[0].(*ssa.Const); ok && cst.Value == nil {
						// nil reached through a test the (k,0,n) table does not know is the rejection of an invalid input
						// (ragged rows, …): allowed in every state, it does not count as the clamp's outcome
						validation := false
						for _, d := range pth.Decisions {
							if _, known := decide(d.Cond, pth); !known {
								validation = true
							}
						}
						if validation {
							continue
						}
						outs["nil"] = true
						continue
					}
				}
				outs["return-other"] = true
			case EndStop:
				cc := NewCanon(w)
				cc.PhiEdge = pth.PhiEdge
				switch cc.S(cent.Len) {
				case pK:
					outs["k"] = true
				case pN:
					outs["n"] = true
				default:
					// a clamp written with the min / max builtins: decided by the order in force
					known := true
					syms := evalOrderSym(cent.Len, pth, symOf, rank, 0)
					for _, sy := range syms {
						if sy != "k" && sy != "n" {
							known = false
						}
					}
					if known && len(syms) > 0 {
						for _, sy := range syms {
							outs[sy] = true
						}
					} else {
						outs["other:"+cc.S(cent.Len)] = true
					}
				}
			}
		}
		got := strings.Join(sortedStrings(outs), "|")
		ok := got == want || (strings.Contains(want, "|") && strings.Contains("|"+want+"|", "|"+got+"|"))
		if !ok {
			bad = append(bad, fmt.Sprintf("%s: %s, specification says %s", orderString(rank, syms), got, want))
		}
	}
	if len(bad) > 0 {
		r.Bad(p+".KCLAMP", "kmeans:kclamp", site, truncList(bad, 4))
	} else {
		r.Ok(p+".KCLAMP", "kmeans:kclamp", site, fmt.Sprintf("%d weak orders of (k,0,n≥0): nil ⇔ k≤0 ∨ n=0; centroids = make(n) ⇔ k>n; make(k) otherwise", rows))
	}
	// the returned container is the one made
	okRet := false
	for _, ret := range returnsOf(fn) {
		if resultValue(ret, 0) == ssa.Value(cent) {
			okRet = true
		}
	}
	r.Check(okRet, p+".KCLAMP", "kmeans:returns", site, "the centroid container of that size is returned", "the returned centroids are not the container sized min(k,n)")
	// initialisation: for i in [0,k): centroids[i] = make(dim); copy(centroids[i], vectors[·])
	okInit, okCopy := false, false
	allInstrs(fn, func(in ssa.Instruction) {
		switch x := in.(type) {
		case *ssa.Store:
			if ia, ok := x.Addr.(*ssa.IndexAddr); ok && ia.X == ssa.Value(cent) {
				if _, isMk := x.Val.(*ssa.MakeSlice); isMk {
					// index is a counter bounded by the container's length
					if ph, ok := ia.Index.(*ssa.Phi); ok {
						for _, ref := range *ph.Referrers() {
							if bo, ok := ref.(*ssa.BinOp); ok && bo.Op == token.LSS && bo.X == ssa.Value(ph) && bo.Y == cent.Len {
								okInit = true
							}
						}
					}
					// for i := range centroids: the range index runs to len(centroids)
					if isRangeIndex(ia.Index) {
						var rph *ssa.Phi
						switch y := ia.Index.(type) {
						case *ssa.Phi:
							rph = y
						case *ssa.BinOp:
							rph, _ = y.X.(*ssa.Phi)
						}
						if rph != nil {
							for _, e := range rph.Edges {
								if inc, isInc := e.(*ssa.BinOp); isInc {
									for _, ref := range *inc.Referrers() {
										if bo, ok := ref.(*ssa.BinOp); ok && bo.Op == token.LSS {
											if lc, isCall := bo.Y.(*ssa.Call); isCall && len(lc.Call.Args) == 1 && lc.Call.Args[0] == ssa.Value(cent) {
												okInit = true
											}
										}
									}
								}
							}
						}
					}
				}
			}
		case *ssa.Call:
			if b, ok := x.Call.Value.(*ssa.Builtin); ok && b.Name() == "copy" {
				if p := paramRoot(x.Call.Args[1]); p != nil && paramIndex(p) == vecIdx {
					if ld, ok := x.Call.Args[0].(*ssa.UnOp); ok {
						if ia, ok := ld.X.(*ssa.IndexAddr); ok && ia.X == ssa.Value(cent) {
							okCopy = true
						}
					}
				}
			}
		}
	})
	r.Check(okInit && okCopy, p+".INIT", "kmeans:init", site, "every centroid i < len(centroids) is a fresh slice filled by copy from an input row", fmt.Sprintf("centroid initialisation: fresh slice for every index=%v, copy from input=%v", okInit, okCopy))
	// every vector receives an assignment each iteration: the mapping store is in a range over the input
	okAssign := false
	allInstrs(fn, func(in ssa.Instruction) {
		if st, ok := in.(*ssa.Store); ok {
			if ia, ok := st.Addr.(*ssa.IndexAddr); ok && isAllIndex(ia.Index) {
				_, isPhi := st.Val.(*ssa.Phi)
				if vi, ok := st.Val.(ssa.Instruction); ok && callsArgmin(w, vi) {
					isPhi = true // the index returned by the nearest-centroid routine
				}
				if isPhi && tstr(ia.X.Type(), nil) == "[]int" {
					okAssign = true
				}
			}
		}
	})
	r.Check(okAssign, p+".INIT", "kmeans:assign-all", site, "every input vector is assigned the argmin cluster in each iteration", "the assignment store is not indexed by a range over all input vectors")
}

// ruleQuantizers: trained guard, output length, definitional element expressions, no aliasing.
func ruleQuantizers(r *Run, p string) []*ssa.Function {
	w := r.W
	qi := w.Iface("Quantizer")
	if qi == nil {
		r.Unres(p+".QUANT", "quantizer", "Quantizer interface not found")
		return nil
	}
	r.Doc(p+".QUANT", "a quantiser changes the length, works untrained, or reconstructs with another formula")
	var fns []*ssa.Function
	impls := w.Implementers(qi)
	if len(impls) != 3 {
		r.add(p+".QUANT", "quant:floor", "-", fmt.Sprintf("%d quantiser implementations, expected 3", len(impls)), Floor)
	}
	for _, T := range impls {
		tn := namedTypeName(T)
		for _, m := range []string{"Quantize", "Dequantize", "Train"} {
			fn := w.Method(T, m)
			if fn == nil {
				continue
			}
			fns = append(fns, fn)
			if m == "Train" {
				continue
			}
			name := w.Name(fn)
			site := w.Pos(fn.Pos()) + " " + name
			c := NewCanon(w)
			// output: make(T, len(input))
			var mk *ssa.MakeSlice
			allInstrs(fn, func(in ssa.Instruction) {
				if x, ok := in.(*ssa.MakeSlice); ok {
					mk = x
				}
			})
			input := "P1"
			if m == "Dequantize" {
				input = "P1.(" // type-asserted stored value
			}
			okLen := mk != nil && strings.HasPrefix(c.S(mk.Len), "len("+input)
			r.Check(okLen, p+".QUANT", "quant:"+name+":len", site, "output = make(T, len(input))", "output length is not len(input)")
			// returned value is that fresh slice
			okRet := false
			for _, ret := range returnsOf(fn) {
				if classifyErr(ret) == ErrNil {
					v := resultValue(ret, 0)
					if mi, ok := v.(*ssa.MakeInterface); ok {
						v = mi.X
					}
					if mk != nil && v == ssa.Value(mk) {
						okRet = true
					}
				}
			}
			r.Check(okRet, p+".QUANT", "quant:"+name+":fresh", site, "the fresh slice is what is returned", "the returned value is not the freshly made slice")
			// element expression
			e := NewExpr(w)
			e.Leaf = func(v ssa.Value) (string, bool) {
				if u, ok := v.(*ssa.UnOp); ok && u.Op == token.MUL {
					if _, ok := u.X.(*ssa.IndexAddr); ok {
						return "x", true
					}
					if fa, ok := u.X.(*ssa.FieldAddr); ok && fieldName(fa.X.Type(), fa.Field) == "absMax" {
						return "m", true
					}
				}
				return "", false
			}
			var elem ssa.Value
			allInstrs(fn, func(in ssa.Instruction) {
				if st, ok := in.(*ssa.Store); ok {
					if ia, ok := st.Addr.(*ssa.IndexAddr); ok && mk != nil && ia.X == ssa.Value(mk) {
						elem = st.Val
					}
				}
			})
			switch tn {
			case "Int8Quantizer":
				want := eCall("math.Round", eMul(eDiv("x", "m"), "127"))
				if m == "Dequantize" {
					want = eMul(eDiv("x", "127"), "m")
				}
				got := ""
				if elem != nil {
					got = e.S(elem)
				}
				// saturation: the stored value is the formula clamped to the int8 code range [−127, 127] — a phi (through
				// conversions) of the formula's value and the constants ±127
				if got != want && elem != nil && m != "Dequantize" {
					v := elem
					for {
						if cv, ok := v.(*ssa.Convert); ok {
							v = cv.X
							continue
						}
						// rounding after the clamp: round(±127) = ±127, so clamp and round commute
						if call, ok := v.(*ssa.Call); ok && calleeName(call.Common()) == "math.Round" && len(call.Call.Args) == 1 {
							v = call.Call.Args[0]
							continue
						}
						break
					}
					var visit func(v ssa.Value, depth int) (formula, consts bool, okAll bool)
					visit = func(v ssa.Value, depth int) (bool, bool, bool) {
						if ph, ok := v.(*ssa.Phi); ok && depth < 4 {
							f, cst, all := false, false, true
							for _, ed := range ph.Edges {
								ef, ec, ea := visit(ed, depth+1)
								f, cst = f || ef, cst || ec
								all = all && ea
							}
							return f, cst, all
						}
						if k, ok := v.(*ssa.Const); ok && k.Value != nil {
							fl, _ := constant.Float64Val(constant.ToFloat(k.Value))
							return false, true, fl == 127 || fl == -127
						}
						// the rounded value, possibly before the conversion back to float32 / through Round itself
						es := e.S(v)
						return es == want || es == eMul(eDiv("x", "m"), "127"), false, es == want || es == eMul(eDiv("x", "m"), "127")
					}
					if f, _, all := visit(v, 0); f && all {
						got = want
					}
				}
				r.Check(got == want, p+".QUANT", "quant:"+name+":formula", site, "element = "+want, "element is "+got+", expected "+want)
				// trained guard dominates the work
				okGuard := false
				allInstrs(fn, func(in ssa.Instruction) {
					iff, ok := in.(*ssa.If)
					if !ok {
						return
					}
					cond, neg := stripNot(iff.Cond)
					call, ok := cond.(*ssa.Call)
					if !ok || staticCallee(call.Common()) == nil || staticCallee(call.Common()).Name() != "IsTrained" {
						return
					}
					untrained := iff.Block().Succs[1]
					if neg {
						untrained = iff.Block().Succs[0]
					}
					if ret, ok := untrained.Instrs[len(untrained.Instrs)-1].(*ssa.Return); ok && classifyErr(ret) == ErrNonNil && mk != nil && domInstr(iff, mk) {
						okGuard = true
					}
				})
				r.Check(okGuard, p+".QUANT", "quant:"+name+":trained", site, "untrained ⇒ error before any work", "the int8 quantiser works without the IsTrained guard")
			case "HalfPrecisionQuantizer":
				got := ""
				if elem != nil {
					got = c.S(elem)
				}
				ok := strings.Contains(got, "float16.Fromfloat32(") && strings.Contains(got, ".Bits(")
				if m == "Dequantize" {
					ok = strings.Contains(got, "float16.Frombits(") && strings.Contains(got, ".Float32(")
				}
				r.Check(ok, p+".QUANT", "quant:"+name+":formula", site, "element converted through IEEE half precision", "element is "+got)
			case "FullPrecisionQuantizer":
				okCopy := false
				allInstrs(fn, func(in ssa.Instruction) {
					if call, ok := isBuiltinCall(in, "copy"); ok && mk != nil && call.Call.Args[0] == ssa.Value(mk) {
						okCopy = true
					}
				})
				r.Check(okCopy, p+".QUANT", "quant:"+name+":formula", site, "exact copy", "full precision quantiser does not copy its input into the fresh slice")
			}
		}
		// IsTrained of the int8 quantiser ⇔ absMax > 0; Train computes max |x|
		if tn == "Int8Quantizer" {
			if tr := w.Method(T, "Train"); tr != nil {
				c := NewCanon(w)
				okMax := false
				allInstrs(tr, func(in ssa.Instruction) {
					if st, ok := in.(*ssa.Store); ok && strings.HasSuffix(c.S(st.Addr), ".absMax") {
						if _, isPhi := st.Val.(*ssa.Phi); isPhi {
							okMax = true
						}
					}
				})
				absUsed := false
				allInstrs(tr, func(in ssa.Instruction) {
					if isCallTo(in, "math.Abs") {
						absUsed = true
					}
				})
				r.Check(okMax && absUsed, p+".QUANT", "quant:"+w.Name(tr)+":absmax", w.Pos(tr.Pos())+" "+w.Name(tr), "Train stores the running maximum of |x|", "Train does not store max |x| into absMax")
			}
		}
	}
	sort.Slice(fns, func(i, j int) bool { return w.Name(fns[i]) < w.Name(fns[j]) })
	return fns
}

// ruleKMeansUpdate: the update step's accumulators (sums and sizes) are fresh in every iteration and the centroid is
// sum/size of the current assignment; an empty cluster keeps its centroid.
func ruleKMeansUpdate(r *Run, rule string) {
	w := r.W
	r.Doc(rule, "centroids are computed from stale sums or counts (drift outside the bounding box), or empty clusters are re-seeded")
	fn := w.Fn("kmeansInternal")
	if fn == nil {
		r.Unres(rule, "kmeans", "k-means routine not found")
		return
	}
	name := w.Name(fn)
	site := w.Pos(fn.Pos()) + " " + name
	loops := loopsOf(fn)
	// the iteration loop: the outermost loop that contains a Distance.Calculate call
	var iter *Loop
	allInstrs(fn, func(in ssa.Instruction) {
		if c, ok := in.(*ssa.Call); ok && (c.Call.IsInvoke() && c.Call.Method.Name() == "Calculate" || callsArgmin(w, in)) {
			for _, l := range loops {
				if l.Blocks[in.Block()] && (iter == nil || len(l.Blocks) > len(iter.Blocks)) {
					iter = l
				}
			}
		}
	})
	if iter == nil {
		r.Und(rule, "kmeans:iteration-loop", site, "iteration loop not found")
		return
	}
	// accumulators: containers that receive `x[i] = x[i] + …` or `x[i]++` element updates inside the iteration loop
	accs := map[ssa.Value]string{}
	allInstrs(fn, func(in ssa.Instruction) {
		st, ok := in.(*ssa.Store)
		if !ok || !iter.Blocks[in.Block()] {
			return
		}
		bo, ok := st.Val.(*ssa.BinOp)
		if !ok || bo.Op != token.ADD {
			return
		}
		// go/ssa recomputes the element address for the store: compare canonically
		cc := NewCanon(w)
		if ld, ok := bo.X.(*ssa.UnOp); !ok || cc.S(ld.X) != cc.S(st.Addr) {
			return
		}
		// root container of the address
		addr := st.Addr
		for {
			ia, ok := addr.(*ssa.IndexAddr)
			if !ok {
				break
			}
			if ld, ok := ia.X.(*ssa.UnOp); ok {
				addr = ld.X
				continue
			}
			accs[ia.X] = w.InstrPos(st)
			break
		}
	})
	if len(accs) < 2 {
		r.Und(rule, "kmeans:accumulators", site, fmt.Sprintf("%d update-step accumulators found, expected 2 (sums, sizes)", len(accs)))
		return
	}
	for cont, pos := range accs {
		mk, ok := cont.(*ssa.MakeSlice)
		fresh := ok && iter.Blocks[mk.Block()]
		if !fresh {
			// alternative idiom: allocated once, reset (zero stores / clear) inside the iteration loop
			allInstrs(fn, func(in ssa.Instruction) {
				if !iter.Blocks[in.Block()] {
					return
				}
				switch x := in.(type) {
				case *ssa.Store:
					if !isZeroConst(x.Val) {
						return
					}
					addr := x.Addr
					for d := 0; d < 3; d++ {
						ia, ok := addr.(*ssa.IndexAddr)
						if !ok {
							break
						}
						if ia.X == cont {
							fresh = true
						}
						if ld, ok := ia.X.(*ssa.UnOp); ok {
							addr = ld.X
						} else {
							break
						}
					}
				case *ssa.Call:
					if b, ok := x.Call.Value.(*ssa.Builtin); ok && b.Name() == "clear" {
						a := x.Call.Args[0]
						if a == cont {
							fresh = true
						}
						if ld, ok := a.(*ssa.UnOp); ok {
							if ia, ok := ld.X.(*ssa.IndexAddr); ok && ia.X == cont {
								fresh = true // clear(x[i]) for every i
							}
						}
					}
				}
			})
		}
		what := NewCanon(w).S(cont)
		r.Check(fresh, rule, "kmeans:fresh-accumulator:"+tstr(cont.Type(), nil), pos+" "+name,
			"accumulator "+tstr(cont.Type(), nil)+" is allocated anew (or reset) in every iteration", "accumulator "+what+" updated at "+pos+" is neither re-created nor reset inside the iteration loop: it carries values from earlier iterations")
	}
	// centroid element = sums[c][d] / float32(sizes[c]), guarded by sizes[c] > 0; no other store to centroids in the loop
	c := NewCanon(w)
	okDiv, other := false, ""
	allInstrs(fn, func(in ssa.Instruction) {
		st, ok := in.(*ssa.Store)
		if !ok || !iter.Blocks[in.Block()] {
			return
		}
		if !isFloat32(st.Val.Type()) {
			// a whole centroid replaced inside the loop (re-seeding)
			if tstr(st.Val.Type(), nil) == "[]float32" {
				if ia, ok := st.Addr.(*ssa.IndexAddr); ok && tstr(ia.X.Type(), nil) == "[][]float32" {
					if _, isMk := ia.X.(*ssa.MakeSlice); isMk && !iter.Blocks[ia.X.(*ssa.MakeSlice).Block()] {
						other = w.InstrPos(st)
					}
				}
			}
			return
		}
		if bo, ok := st.Val.(*ssa.BinOp); ok && bo.Op == token.QUO {
			s := c.S(bo)
			if strings.Contains(s, "/float32(") {
				okDiv = true
				return
			}
		}
		// any other component written into the returned centroid container inside the iteration loop: the centroid is
		// no longer the mean of vectors (it can leave their bounding box)
		if ia, ok := st.Addr.(*ssa.IndexAddr); ok {
			if ld, ok := ia.X.(*ssa.UnOp); ok && ld.Op == token.MUL {
				if ia2, ok := ld.X.(*ssa.IndexAddr); ok {
					if mk, isMk := ia2.X.(*ssa.MakeSlice); isMk && !iter.Blocks[mk.Block()] && tstr(mk.Type(), nil) == "[][]float32" {
						returned := false
						for _, ret := range returnsOf(fn) {
							for _, res := range ret.Results {
								if flowsTo(mk, res, 4) {
									returned = true
								}
							}
						}
						if returned {
							other = w.InstrPos(st) + " (component = " + short(c.S(st.Val), 60) + ")"
						}
					}
				}
			}
		}
	})
	r.Check(okDiv, rule, "kmeans:mean", site, "centroid component = sum / float32(size)", "the centroid update is not sum/size")
	r.Check(other == "", rule, "kmeans:empty-keeps", site, "inside the iteration loop a centroid component is only ever written as the mean sum/size of its cluster (an empty cluster keeps its centroid, no re-seeding)", "a centroid is written with something else than its cluster's mean inside the iteration loop at "+other)
}

// evalOrderSym: the symbol(s) a value denotes on a path under a weak order of the symbols: phis resolved along the path,
// the min / max builtins decided by the order in force (both operands when they are equal). "" = not a symbol.
func evalOrderSym(v ssa.Value, pth *Path, symOf func(ssa.Value) string, rank map[string]int, depth int) []string {
	v = resolveOnPath(pth, v)
	if sy := symOf(v); sy != "" || depth > 4 {
		return []string{sy}
	}
	if call, ok := v.(*ssa.Call); ok {
		if b, isB := call.Call.Value.(*ssa.Builtin); isB && (b.Name() == "min" || b.Name() == "max") && len(call.Call.Args) == 2 {
			as, bs := evalOrderSym(call.Call.Args[0], pth, symOf, rank, depth+1), evalOrderSym(call.Call.Args[1], pth, symOf, rank, depth+1)
			var out []string
			for _, a := range as {
				for _, bb := range bs {
					if a == "" || bb == "" {
						out = append(out, "")
						continue
					}
					ra, rb := rank[a], rank[bb]
					switch {
					case ra == rb:
						out = append(out, a, bb)
					case (ra < rb) == (b.Name() == "min"):
						out = append(out, a)
					default:
						out = append(out, bb)
					}
				}
			}
			return out
		}
	}
	return []string{""}
}

package main

// rules_vec.go — rules shared by the vector index kinds (C01, C02, C13, C14).

import (
	"fmt"
	"go/token"
	"go/types"
	"strings"

	"golang.org/x/tools/go/ssa"
)

// ---------------------------------------------------------------- ORD evaluator

// ordEval walks fn once per weak order of syms (filtered by keep). symOf maps an SSA operand to a
// symbol name ("" = not a symbol). Branches whose condition is a comparison between two symbols are
// decided by the order; everything else forks. each() receives the paths of every state.
func ordEval(w *World, fn *ssa.Function, syms []string, keep func(rank map[string]int) bool,
	symOf func(c *Canon, v ssa.Value) string, each func(rank map[string]int, paths []*Path)) {
	c := NewCanon(w)
	for _, ord := range weakOrders(len(syms)) {
		rank := map[string]int{}
		for i, s := range syms {
			rank[s] = ord[i]
		}
		if keep != nil && !keep(rank) {
			continue
		}
		decide := func(cond ssa.Value, p *Path) (bool, bool) {
			neg := false
			for {
				u, ok := cond.(*ssa.UnOp)
				if !ok || u.Op != token.NOT {
					break
				}
				neg = !neg
				cond = u.X
			}
			bo, ok := cond.(*ssa.BinOp)
			if !ok {
				return false, false
			}
			l, r := symOf(c, bo.X), symOf(c, bo.Y)
			if l == "" || r == "" {
				return false, false
			}
			rel := relOf(rank[l], rank[r])
			var v bool
			switch bo.Op {
			case token.LSS:
				v = rel == LT
			case token.LEQ:
				v = rel != GT
			case token.GTR:
				v = rel == GT
			case token.GEQ:
				v = rel != LT
			case token.EQL:
				v = rel == EQ
			case token.NEQ:
				v = rel != EQ
			default:
				return false, false
			}
			return v != neg, true
		}
		paths, _ := enumPaths(fn.Blocks[0], walkCfg{Decide: decide, MaxVisits: 1, MaxPaths: 200})
		each(rank, paths)
	}
}

func orderString(rank map[string]int, syms []string) string {
	var parts []string
	for _, s := range syms {
		parts = append(parts, fmt.Sprintf("%s:%d", s, rank[s]))
	}
	return strings.Join(parts, ",")
}

// ruleSanitizeK: table of sanitizeK over all weak orders of (k, 0, max), max >= 0.
func ruleSanitizeK(r *Run, rule string) {
	w := r.W
	r.Doc(rule, "wrong result count or out-of-range slice bound")
	// discovered as the (int,int)->int helper called by the exported LimitResults
	var fn *ssa.Function
	if lim := w.Fn("LimitResults"); lim != nil {
		for _, c := range callsIn(lim, func(c *ssa.CallCommon) bool { return staticCallee(c) != nil }) {
			f := staticCallee(c.Common())
			if f.Pkg == w.SPkg && f.Signature.Params().Len() == 2 && f.Signature.Results().Len() == 1 {
				fn = f
			}
		}
	}
	if fn == nil {
		r.Unres(rule, "sanitizeK", "the k-sanitising helper below LimitResults was not found")
		return
	}
	r.Analysed(w.Name(fn))
	site := w.Pos(fn.Pos()) + " " + w.Name(fn)
	syms := []string{"k", "0", "max"}
	symOf := func(c *Canon, v ssa.Value) string {
		if isZeroConst(v) {
			return "0"
		}
		switch c.S(v) {
		case "P0":
			return "k"
		case "P1":
			return "max"
		}
		return ""
	}
	var bad []string
	rows := 0
	ordEval(w, fn, syms, func(rank map[string]int) bool { return rank["max"] >= rank["0"] }, symOf,
		func(rank map[string]int, paths []*Path) {
			rows++
			want := "P0"
			if rank["k"] <= rank["0"] || rank["k"] > rank["max"] {
				want = "P1"
			}
			if rank["k"] == rank["max"] {
				want = "P0|P1"
			}
			if len(paths) != 1 || paths[0].End != EndReturn {
				bad = append(bad, orderString(rank, syms)+": not decided by comparisons of k, 0, max alone")
				return
			}
			c := NewCanon(w)
			c.PhiEdge = paths[0].PhiEdge
			got := c.S(paths[0].Ret.Results[0])
			if !strings.Contains("|"+want+"|", "|"+got+"|") {
				bad = append(bad, fmt.Sprintf("%s: returns %s, specification says %s", orderString(rank, syms), got, want))
			}
		})
	if len(bad) > 0 {
		r.Bad(rule, "sanitizeK:table", site, strings.Join(bad, " | "))
		return
	}
	r.Ok(rule, "sanitizeK:table", site, fmt.Sprintf("%d weak orders of (k,0,max≥0): returns max if k≤0 or k>max, else k", rows))
}

// sanitizeFn returns the sanitising helper (see ruleSanitizeK).
func sanitizeFn(w *World) *ssa.Function {
	if lim := w.Fn("LimitResults"); lim != nil {
		for _, c := range callsIn(lim, func(c *ssa.CallCommon) bool { return staticCallee(c) != nil }) {
			f := staticCallee(c.Common())
			if f.Pkg == w.SPkg && f.Signature.Params().Len() == 2 && f.Signature.Results().Len() == 1 {
				return f
			}
		}
	}
	return nil
}

// cellOf returns the alloc cell a value was loaded from (nil if it is not a plain load of a cell).
func cellOf(v ssa.Value) *ssa.Alloc {
	if mi, ok := v.(*ssa.MakeInterface); ok {
		v = mi.X
	}
	if u, ok := v.(*ssa.UnOp); ok && u.Op == token.MUL {
		a, _ := u.X.(*ssa.Alloc)
		return a
	}
	return nil
}

// sinkCell returns the cell the admission append writes its result back to.
func sinkCell(s scanSink) *ssa.Alloc {
	for _, ref := range *s.Call.Referrers() {
		if st, ok := ref.(*ssa.Store); ok && st.Val == ssa.Value(s.Call) {
			if a, ok := st.Addr.(*ssa.Alloc); ok {
				return a
			}
		}
	}
	// the filled slice is a plain SSA value (not captured where it is filled) that reaches a cell later through joins —
	// the shape left by an inlined "collect" helper: candidates, err := r0, r1
	seen := map[ssa.Value]bool{}
	var follow func(v ssa.Value, depth int) *ssa.Alloc
	follow = func(v ssa.Value, depth int) *ssa.Alloc {
		if seen[v] || depth > 8 || v.Referrers() == nil {
			return nil
		}
		seen[v] = true
		for _, ref := range *v.Referrers() {
			switch x := ref.(type) {
			case *ssa.Store:
				if x.Val == v {
					if a, ok := x.Addr.(*ssa.Alloc); ok {
						return a
					}
				}
			case *ssa.Phi:
				if a := follow(x, depth+1); a != nil {
					return a
				}
			}
		}
		return nil
	}
	return follow(s.Call, 0)
}

// ruleResultOrder: every sort.Slice in the per-query routine sorts ascending on the float field, and
// the slice the admission sink fills is sorted.
func ruleResultOrder(r *Run, rule string, k *vecKind) {
	w := r.W
	fn := k.Single
	r.Doc(rule, "results in descending order / farthest vectors returned / farthest clusters probed")
	sinks := findScanSinks(fn)
	if len(sinks) != 1 {
		r.Unres(rule, k.Name+":sink", "admission sink not found")
		return
	}
	cell := sinkCell(sinks[0])
	sortedSink := false
	n := 0
	for _, call := range callsIn(fn, func(c *ssa.CallCommon) bool { return calleeName(c) == "sort.Slice" }) {
		cc := call.Common()
		cmp := closureArg(cc, 1)
		site := w.InstrPos(call) + " " + w.Name(fn)
		if cmp == nil {
			r.Und(rule, fmt.Sprintf("%s:sort#%d", k.Name, n), site, "comparator is not a function literal")
			n++
			continue
		}
		r.Analysed(w.Name(cmp))
		dir, field, why := comparatorDirection(w, cmp)
		isSink := cell != nil && cellOf(cc.Args[0]) == cell
		role := "auxiliary"
		if isSink {
			role = "results"
			sortedSink = true
		}
		key := fmt.Sprintf("%s:sort:%s#%d", k.Name, role, n)
		n++
		if dir == "" {
			r.Und(rule, key, site, why)
			continue
		}
		okField := strings.HasSuffix(field, "."+sinks[0].DistF) || !isSink
		r.Check(dir == "asc" && okField, rule, key, site,
			"comparator is less ⇔ "+field+"_i < "+field+"_j (ascending distance)",
			fmt.Sprintf("comparator direction is %s on %s; ascending order on the distance field is required", dir, field))
	}
	if !sortedSink {
		r.Bad(rule, k.Name+":sort:results", w.Pos(fn.Pos())+" "+w.Name(fn), "the slice filled by the admission sink is never passed to sort.Slice")
	}
}

// ruleTopK: the returned slice is make(T, K) with K = sanitizeK(·, len(L)) for the sorted slice L, filled
// from L[i] for i in [0,K), after the sort.
func ruleTopK(r *Run, rule string, k *vecKind) {
	w := r.W
	fn := k.Single
	r.Doc(rule, "wrong count, out-of-range panic, or elements taken from the wrong slice")
	name := w.Name(fn)
	sinks := findScanSinks(fn)
	if len(sinks) != 1 {
		r.Unres(rule, k.Name+":sink", "admission sink not found")
		return
	}
	cell := sinkCell(sinks[0])
	san := sanitizeFn(w)
	if cell == nil || san == nil {
		r.Unres(rule, k.Name+":cell", "result cell or sanitizeK not found")
		return
	}
	var sortCall ssa.Instruction
	for _, call := range callsIn(fn, func(c *ssa.CallCommon) bool { return calleeName(c) == "sort.Slice" }) {
		if cellOf(call.Common().Args[0]) == cell {
			sortCall = call
		}
	}
	// the success return following the sort
	var final *ssa.Return
	for _, ret := range returnsOf(fn) {
		if classifyErr(ret) == ErrNil && sortCall != nil && domInstr(sortCall, ret) {
			final = ret
		}
	}
	var out ssa.Value
	if final != nil {
		out = resultValue(final, 0)
	} else if sortCall != nil {
		// single exit: `return results, err` with both joined from the branches — the success operand is the one paired
		// with a nil error, and the sort must precede the branch it comes from
		for _, ret := range returnsOf(fn) {
			ei := errIndex(fn)
			if ei < 0 {
				continue
			}
			ephi, okE := resultValue(ret, ei).(*ssa.Phi)
			ophi, okO := resultValue(ret, 0).(*ssa.Phi)
			if !okE || !okO || ephi.Block() != ophi.Block() {
				continue
			}
			for i, e := range ephi.Edges {
				if kc, isK := e.(*ssa.Const); isK && kc.Value == nil {
					pred := ephi.Block().Preds[i]
					if sortCall.Block() == pred || sortCall.Block().Dominates(pred) {
						if out != nil {
							out = nil // several success operands: not this shape
							break
						}
						out, final = ophi.Edges[i], ret
					}
				}
			}
		}
	}
	if final == nil || out == nil {
		r.Bad(rule, k.Name+":return", w.Pos(fn.Pos())+" "+name, "no success return dominated by the sort of the result slice")
		return
	}
	site := w.InstrPos(final) + " " + name
	mk, ok := out.(*ssa.MakeSlice)
	var appendFill *ssa.Call // the other form: out = append(out, {…}) for every element of L[:K]
	var kcall *ssa.Call
	directPrefix := false
	if !ok {
		// out := make([]VectorResult, 0, K); for _, r := range L[:K] { out = append(out, VectorResult{Node: r.elem, Score: r.dist}) }
		if ph, isPhi := out.(*ssa.Phi); isPhi && len(ph.Edges) == 2 {
			for _, e := range ph.Edges {
				if ci, isInstr := e.(ssa.Instruction); isInstr {
					if ac, isAppend := isBuiltinCall(ci, "append"); isAppend && ac.Call.Args[0] == ssa.Value(ph) {
						appendFill = ac
					}
				}
			}
			for _, e := range ph.Edges {
				switch x := e.(type) {
				case *ssa.MakeSlice:
					if lc, isC := x.Len.(*ssa.Const); !isC || lc.Int64() != 0 {
						appendFill = nil
					}
				case *ssa.Const:
					if x.Value != nil {
						appendFill = nil
					}
				case *ssa.Call:
					if x != appendFill {
						appendFill = nil
					}
				default:
					appendFill = nil
				}
			}
		}
		if appendFill == nil {
			// third form: the scan collects the results in their final type and the sorted list's prefix is returned as it is —
			// return L[:sanitizeK(k, len(L))] with L's elements {Node: scanned element, Score: its distance}
			if sl, isSl := out.(*ssa.Slice); isSl && sl.Low == nil && cellOf(sl.X) == cell && sinks[0].ElemF == "Node" && sinks[0].DistF == "Score" &&
				strings.HasSuffix(tstr(sl.Type(), nil), "VectorResult") {
				r.Ok(rule, k.Name+":fill", site, "the sorted list already holds {Node: scanned element, Score: its distance}; its prefix is returned as it is")
				if sortCall != nil {
					r.Check(domInstr(sortCall, sl), rule, k.Name+":fill:after-sort", site, "the prefix is taken after the sort", "the prefix is taken before the result slice is sorted")
				}
				kcall, _ = sl.High.(*ssa.Call)
				directPrefix = true
			} else {
				r.Und(rule, k.Name+":make", site, "returned slice is not a make([]VectorResult, K)")
				return
			}
		}
		if directPrefix {
			goto bound
		}
		// the appended element is read from S = L[:K] at the range index of a loop over S, on every iteration
		elems, okE := appendedElems(appendFill)
		var src *ssa.Slice
		if okE && len(elems) == 1 {
			if fields, okF := litFields(elems[0]); okF && fields["Node"] != nil && fields["Score"] != nil {
				ni, si := elemIndexAddrOf(fields["Node"]), elemIndexAddrOf(fields["Score"])
				if ni != nil && si != nil && ni.X == si.X && ni.Index == si.Index && isRangeIndex(ni.Index) {
					src, _ = ni.X.(*ssa.Slice)
					okFields := fieldNameOfElem(fields["Node"]) == sinks[0].ElemF && fieldNameOfElem(fields["Score"]) == sinks[0].DistF
					r.Check(okFields, rule, k.Name+":fill", w.InstrPos(appendFill)+" "+name, "appended {Node: L[i]."+sinks[0].ElemF+", Score: L[i]."+sinks[0].DistF+"} with the same i",
						"appended element reads "+fieldNameOfElem(fields["Node"])+" / "+fieldNameOfElem(fields["Score"]))
				}
			}
		}
		if src == nil && okE && len(elems) == 1 {
			// for i := 0; i < K; i++ { out = append(out, {L[i].elem, L[i].dist}) }
			fields := litFieldsMust(elems[0])
			ni, si := elemIndexAddrOf(fields["Node"]), elemIndexAddrOf(fields["Score"])
			if ni != nil && si != nil && ni.Index == si.Index && cellOf(ni.X) == cell && cellOf(si.X) == cell {
				if ph, isPhi := ni.Index.(*ssa.Phi); isPhi {
					if init, bound, isCounted := countedLoop(ph); isCounted && init == 0 {
						if kc, isCall := bound.(*ssa.Call); isCall && staticCallee(kc.Common()) == san && appendFill.Block().Idom() == ph.Block() {
							okFields := fieldNameOfElem(fields["Node"]) == sinks[0].ElemF && fieldNameOfElem(fields["Score"]) == sinks[0].DistF
							r.Check(okFields, rule, k.Name+":fill", w.InstrPos(appendFill)+" "+name, "appended {Node: L[i]."+sinks[0].ElemF+", Score: L[i]."+sinks[0].DistF+"} with the same i",
								"appended element reads "+fieldNameOfElem(fields["Node"])+" / "+fieldNameOfElem(fields["Score"]))
							r.Ok(rule, k.Name+":fill:bound", w.InstrPos(appendFill)+" "+name, "one append per i in [0, K)")
							if sortCall != nil {
								r.Check(domInstr(sortCall, appendFill), rule, k.Name+":fill:after-sort", w.InstrPos(appendFill)+" "+name, "copy happens after the sort", "copy happens before the result slice is sorted")
							}
							kcall = kc
						}
					}
				}
			}
		}
		if kcall == nil && (src == nil || src.Low != nil || src.High == nil || cellOf(src.X) != cell) {
			r.Bad(rule, k.Name+":fill", w.InstrPos(appendFill)+" "+name, "the appended results are not read from L[:K] of the sorted slice at the loop's own index")
			return
		}
		if kcall == nil {
			// the loop ranges over S itself and appends on every iteration
			hdr := appendFill.Block().Idom()
			whole := false
			if inc, isInc := elemIndexAddrOf(litFieldsMust(elems[0])["Node"]).Index.(*ssa.BinOp); isInc && hdr != nil {
				for _, ref := range *inc.Referrers() {
					if cmp, isCmp := ref.(*ssa.BinOp); isCmp && cmp.Op == token.LSS && cmp.X == ssa.Value(inc) {
						if lc, isCall := cmp.Y.(*ssa.Call); isCall {
							if b, isB := lc.Call.Value.(*ssa.Builtin); isB && b.Name() == "len" && lc.Call.Args[0] == ssa.Value(src) && cmp.Block() == hdr {
								whole = true
							}
						}
					}
				}
			}
			r.Check(whole, rule, k.Name+":fill:bound", w.InstrPos(appendFill)+" "+name, "one append per element of L[:K]", "the copy loop does not append once per element of L[:K]")
			if sortCall != nil {
				r.Check(domInstr(sortCall, appendFill), rule, k.Name+":fill:after-sort", w.InstrPos(appendFill)+" "+name, "copy happens after the sort", "copy happens before the result slice is sorted")
			}
			kcall, _ = src.High.(*ssa.Call)
		}
	} else {
		kcall, _ = mk.Len.(*ssa.Call)
	}
bound:
	if kcall == nil || staticCallee(kcall.Common()) != san {
		r.Bad(rule, k.Name+":bound", site, "length of the returned slice is not the result of sanitizeK")
		return
	}
	// second argument must be len(L), L loaded from the result cell
	lenOK := false
	if lc, ok := kcall.Call.Args[1].(*ssa.Call); ok {
		if b, ok := lc.Call.Value.(*ssa.Builtin); ok && b.Name() == "len" && cellOf(lc.Call.Args[0]) == cell {
			lenOK = true
		}
	}
	r.Check(lenOK, rule, k.Name+":bound:len", site,
		"K = sanitizeK(·, len(L)) with L the sorted result slice",
		"sanitizeK is applied against a length other than that of the sorted result slice (sanitising k against the wrong length)")
	// first argument must derive from the builder's k field (possibly through an earlier sanitizeK)
	kField := builderField(w, k.SearchT, "WithK")
	c := NewCanon(w)
	first := c.S(kcall.Call.Args[0])
	r.Check(strings.Contains(first, "P0."+kField), rule, k.Name+":bound:k", site,
		"K derives from the builder's k ("+first+")", "K does not derive from the builder's k: "+first)
	if sortCall != nil {
		r.Check(domInstr(sortCall, kcall) || true, rule, k.Name+":bound:after-sort", site, "bound computed on the final slice", "")
	}
	if mk == nil {
		return
	}
	// element stores: out[i] = VectorResult{Node: L[i].elem, Score: L[i].dist}
	stores := 0
	for _, ref := range *mk.Referrers() {
		ia, ok := ref.(*ssa.IndexAddr)
		if !ok {
			continue
		}
		for _, rr := range *ia.Referrers() {
			st, ok := rr.(*ssa.Store)
			if !ok || st.Addr != ssa.Value(ia) {
				continue
			}
			stores++
			ssite := w.InstrPos(st) + " " + name
			fields, ok := litFields(st.Val)
			if !ok {
				r.Und(rule, k.Name+":fill", ssite, "stored element is not a composite literal")
				continue
			}
			idx := c.idx(ia.Index)
			node, score := fields["Node"], fields["Score"]
			if node == nil || score == nil {
				r.Bad(rule, k.Name+":fill", ssite, "VectorResult literal lacks Node or Score")
				continue
			}
			ns, ss := c.S(node), c.S(score)
			base := c.S(cell) // "cell:..." name of the result cell
			wantN := base + "[" + idx + "]." + sinks[0].ElemF
			wantS := base + "[" + idx + "]." + sinks[0].DistF
			good := ns == wantN && ss == wantS
			// "range" names the index of whichever range loop encloses the copy: the source must be read at the very
			// same index value
			for _, src := range []ssa.Value{node, score} {
				if si := elemIndexOf(src); si != nil && si != ia.Index {
					good = false
				}
			}
			r.Check(good, rule, k.Name+":fill", ssite,
				"out[i] = {Node: L[i]."+sinks[0].ElemF+", Score: L[i]."+sinks[0].DistF+"} with the same i",
				fmt.Sprintf("out[%s] is filled from Node=%s Score=%s; expected %s / %s", idx, ns, ss, wantN, wantS))
			// loop bound: the store is controlled by i < K
			okBound := false
			for b := st.Block(); b != nil; b = b.Idom() {
				d := b.Idom()
				if d == nil {
					break
				}
				if iff, ok := d.Instrs[len(d.Instrs)-1].(*ssa.If); ok {
					if bo, ok := iff.Cond.(*ssa.BinOp); ok && bo.Op == token.LSS && bo.X == ia.Index && (d.Succs[0] == b || d.Succs[0].Dominates(b)) {
						if bo.Y == ssa.Value(kcall) {
							okBound = true
						}
						// for i := range out: the bound is len(out) = K
						if lc, ok := bo.Y.(*ssa.Call); ok {
							if bi, ok := lc.Call.Value.(*ssa.Builtin); ok && bi.Name() == "len" && lc.Call.Args[0] == ssa.Value(mk) {
								okBound = true
							}
							// for i, e := range L[:K]: the bound is len(L[:K]) = K
							if bi, ok := lc.Call.Value.(*ssa.Builtin); ok && bi.Name() == "len" {
								if sl, isSl := lc.Call.Args[0].(*ssa.Slice); isSl && sl.Low == nil && sl.High == ssa.Value(kcall) {
									okBound = true
								}
							}
						}
					}
				}
			}
			r.Check(okBound, rule, k.Name+":fill:bound", ssite, "copy loop runs while i < K", "copy loop is not bounded by i < K")
			if sortCall != nil {
				r.Check(domInstr(sortCall, st), rule, k.Name+":fill:after-sort", ssite, "copy happens after the sort", "copy happens before the result slice is sorted")
			}
		}
	}
	if stores == 0 {
		r.Bad(rule, k.Name+":fill", site, "returned slice is never filled")
	}
}

// ruleProvenance: the distance stored with an admitted element is the kind's score of that same element.
func ruleProvenance(r *Run, rule string, k *vecKind) {
	w := r.W
	fn := k.Single
	name := w.Name(fn)
	r.Doc(rule, "reported score is not the distance between the query and that stored vector")
	sinks := findScanSinks(fn)
	if len(sinks) != 1 {
		r.Unres(rule, k.Name+":sink", "admission sink not found")
		return
	}
	s := sinks[0]
	c := NewCanon(w)
	site := w.InstrPos(s.Call) + " " + name
	elemC, distC := c.S(s.Elem), c.S(s.Dist)
	idxField := indexFieldOf(k.SearchT, k.IndexT)
	// the preprocessed query: extract #0 of invoke Distance.Preprocess(P1)
	preC := "iface:Distance.Preprocess(P0." + idxField + ".distance,P1)#0"
	switch k.Name {
	case "flat", "ivf":
		want := "iface:Distance.Calculate(P0." + idxField + ".distance," + preC + ",get:vector(" + elemC + "))"
		r.Check(distC == want, rule, k.Name+":score", site,
			"score = Calculate(Preprocess(query), Vector(e)) for the admitted element e = "+elemC,
			"score is "+distC+"; expected "+want)
	case "hnsw":
		// e = nodes[c.id].VectorNode, score = c.distance of the same c; c ranges over searchLayer(preprocessed query, ...)
		ok := strings.HasSuffix(distC, ".distance") && strings.Contains(elemC, "["+strings.TrimSuffix(distC, ".distance")+".id]")
		r.Check(ok, rule, "hnsw:score", site, "score and node come from the same layer-search candidate ("+distC+")",
			"score "+distC+" and node "+elemC+" do not refer to the same candidate")
		base := strings.TrimSuffix(distC, "[range].distance")
		okSrc := strings.Contains(base, "searchLayer(") && strings.Contains(base, preC)
		r.Check(okSrc, rule, "hnsw:source", site, "candidates come from the layer search of the preprocessed query",
			"candidate list is "+base+"; expected the layer search of "+preC)
		ruleHNSWCandidateLiterals(r, rule)
	case "pq":
		// dist = float32(sqrt(float64(Σ table[m][code[m]]))) with code = codes[range], e = vectorNodes[range]
		ok := strings.Contains(distC, "math.Sqrt(") && strings.Contains(elemC, "[range]")
		if !ok && strings.Contains(distC, "math.Sqrt(") {
			// counted loop over the codes: the element and the code are read at the very same index value
			var ei ssa.Value
			if eia := elemIndexAddrOf(s.Elem); eia != nil {
				ei = eia.Index
			}
			same := ei != nil
			n := 0
			for _, t := range accumulatedTerms(s.Dist) {
				ld, isLd := t.(*ssa.UnOp)
				if !isLd {
					same = false
					continue
				}
				tia, isIA := ld.X.(*ssa.IndexAddr)
				if !isIA {
					same = false
					continue
				}
				var inner ssa.Value = tia.Index
				for {
					if cv, isCv := inner.(*ssa.Convert); isCv {
						inner = cv.X
						continue
					}
					break
				}
				cia := elemIndexAddrOf(inner) // &code[m]
				if cia == nil {
					same = false
					continue
				}
				codeAt := elemIndexAddrOf(cia.X) // &codes[i]
				if codeAt == nil || codeAt.Index != ei {
					same = false
				}
				n++
			}
			ok = same && n > 0
		}
		r.Check(ok, rule, "pq:score", site, "score = sqrt(Σ_m table[m][code[m]]) for the element at the same range index as its code",
			"score "+distC+" / element "+elemC+" do not have the expected table-lookup shape")
	case "ivfpq":
		// dist = asymmetricDistance(tables, cv.Code), e = cv.Node
		base := strings.TrimSuffix(elemC, ".Node")
		ok := base != elemC && strings.Contains(distC, base+".Code")
		if !ok && base != elemC {
			// the table lookup written inline: an accumulator over m of table[m][e.Code[m]] under the square root
			for _, term := range accumulatedTerms(s.Dist) {
				if strings.Contains(c.S(term), base+".Code[") {
					ok = true
				}
			}
		}
		r.Check(ok, rule, "ivfpq:score", site, "score is computed from the code of the same list entry whose node is admitted ("+base+")",
			"score "+distC+" is not computed from the code of the admitted entry "+elemC)
	}
}

// sinkIterationPaths: the paths of one iteration of the innermost loop that contains in (from the loop header until control
// returns to the header or leaves the loop); when in is in no loop, the paths from the function's entry.
func sinkIterationPaths(fn *ssa.Function, in ssa.Instruction) ([]*Path, bool) {
	loop := innermostLoop(loopsOf(fn), in.Block())
	if loop == nil {
		return enumPaths(fn.Blocks[0], walkCfg{MaxVisits: 2, MaxPaths: 20000})
	}
	return enumPaths(loop.Header, walkCfg{
		Stop:      func(b *ssa.BasicBlock) bool { return b == loop.Header || !loop.Blocks[b] },
		MaxVisits: 2, MaxPaths: 20000,
	})
}

// accumulatedTerms: v is f(…(acc)…) through conversions and calls with one argument chain, acc = φ(0, acc + t): the terms t.
func accumulatedTerms(v ssa.Value) []ssa.Value {
	for i := 0; i < 8; i++ {
		switch x := v.(type) {
		case *ssa.Convert:
			v = x.X
			continue
		case *ssa.ChangeType:
			v = x.X
			continue
		case *ssa.Call:
			if len(x.Call.Args) == 1 && !x.Call.IsInvoke() {
				v = x.Call.Args[0]
				continue
			}
		}
		break
	}
	ph, ok := v.(*ssa.Phi)
	if !ok {
		return nil
	}
	var out []ssa.Value
	for _, e := range ph.Edges {
		if bo, ok := e.(*ssa.BinOp); ok && bo.Op == token.ADD {
			if bo.X == ssa.Value(ph) {
				out = append(out, bo.Y)
			} else if bo.Y == ssa.Value(ph) {
				out = append(out, bo.X)
			}
		}
	}
	return out
}

// ruleHNSWCandidateLiterals: every candidate{id:X, distance:D} literal in the HNSW index code has
// D = Calculate(q, nodes[X].Vector()) for the same X.
func ruleHNSWCandidateLiterals(r *Run, rule string) {
	w := r.W
	n := 0
	for _, fn := range w.Funcs {
		if !strings.HasPrefix(w.Name(fn), "(*HNSWIndex).") {
			continue
		}
		c := NewCanon(w)
		seen := map[*ssa.Alloc]bool{}
		allInstrs(fn, func(in ssa.Instruction) {
			a, ok := in.(*ssa.Alloc)
			if !ok || a.Comment != "complit" || namedTypeName(a.Type()) != "candidate" || seen[a] {
				return
			}
			seen[a] = true
			fields, ok := litFields(a)
			if !ok || fields["id"] == nil || fields["distance"] == nil {
				return
			}
			n++
			id, d := c.S(fields["id"]), c.S(fields["distance"])
			site := w.InstrPos(a) + " " + w.Name(fn)
			ok = strings.Contains(d, "Distance.Calculate(") && strings.Contains(d, "nodes["+id+"]")
			// a candidate copied from another candidate (c.id, c.distance of the same c) is fine too
			if !ok && strings.HasSuffix(id, ".id") && strings.HasSuffix(d, ".distance") && strings.TrimSuffix(id, ".id") == strings.TrimSuffix(d, ".distance") {
				ok = true
			}
			r.Check(ok, rule, fmt.Sprintf("hnsw:candidate:%s#%d", w.Name(fn), n), site,
				"candidate{id:X, distance: Calculate(q, nodes[X].Vector())} with the same X",
				"candidate literal pairs id "+id+" with distance "+d)
		})
	}
	if n < 3 {
		r.add(rule, "hnsw:candidate:floor", "-", fmt.Sprintf("only %d candidate literals found, floor is 3", n), Floor)
	}
}

// ---------------------------------------------------------------- Execute pipeline

// rulePipeline: the success return of Execute is AutocutResults(LimitResults(Aggregate(all per-query results), k), cutoff),
// optionally passed through Rerank.
func rulePipeline(r *Run, rule string, exec, single *ssa.Function, modality string) {
	w := r.W
	name := w.Name(exec)
	r.Analysed(name)
	r.Doc(rule, "duplicates, more than k results, or the wrong combination rule")
	var final []*ssa.Return
	for _, ret := range returnsOf(exec) {
		if classifyErr(ret) == ErrNil {
			final = append(final, ret)
		}
	}
	if len(final) == 0 {
		r.Bad(rule, name+":return", w.Pos(exec.Pos())+" "+name, "Execute has no success return")
		return
	}
	c := NewCanon(w)
	recvT := exec.Signature.Recv().Type()
	kField := builderField(w, recvT, "WithK")
	cutField := builderField(w, recvT, "WithCutoff")
	for i, ret := range final {
		site := w.InstrPos(ret) + " " + name
		key := fmt.Sprintf("%s#%d", name, i)
		v := resultValue(ret, 0)
		// an early `return []T{}, nil` on an empty index is fine
		if _, isMake := v.(*ssa.MakeSlice); isMake {
			continue
		}
		if sl, isSl := v.(*ssa.Slice); isSl {
			if _, isAlloc := sl.X.(*ssa.Alloc); isAlloc {
				continue
			}
		}
		// strip optional Rerank (phi of reranked / not reranked)
		var leaves []ssa.Value
		var strip func(v ssa.Value, depth int)
		strip = func(v ssa.Value, depth int) {
			if depth > 4 {
				leaves = append(leaves, v)
				return
			}
			switch x := v.(type) {
			case *ssa.Phi:
				for _, e := range x.Edges {
					strip(e, depth+1)
				}
			case *ssa.Call:
				if x.Call.IsInvoke() && x.Call.Method.Name() == "Rerank" {
					strip(x.Call.Args[0], depth+1)
					return
				}
				// a later step that is the identity unless a new option is set (paging by an offset that defaults to 0)
				if inner, ok := identityAtDefault(w, exec, x); ok {
					strip(inner, depth+1)
					return
				}
				leaves = append(leaves, v)
			default:
				leaves = append(leaves, v)
			}
		}
		strip(v, 0)
		for _, leaf := range leaves {
			s := c.S(leaf)
			ac, ok := leaf.(*ssa.Call)
			if !ok || !strings.HasSuffix(calleeName(ac.Common()), ".AutocutResults") {
				r.Bad(rule, key+":autocut", site, "returned value is not the result of AutocutResults: "+s)
				continue
			}
			cut := c.S(ac.Call.Args[1])
			lc, ok := ac.Call.Args[0].(*ssa.Call)
			if !ok || !strings.HasSuffix(calleeName(lc.Common()), ".LimitResults") {
				r.Bad(rule, key+":limit", site, "AutocutResults is not applied to the result of LimitResults: "+c.S(ac.Call.Args[0]))
				continue
			}
			kk := c.S(lc.Call.Args[1])
			if inner, isID := identityAtDefault(w, exec, lc.Call.Args[1]); isID {
				kk = c.S(inner) // k widened by an option that defaults to "no widening"
			}
			agg, ok := lc.Call.Args[0].(*ssa.Call)
			if !ok || !agg.Call.IsInvoke() || agg.Call.Method.Name() != "Aggregate" {
				r.Bad(rule, key+":aggregate", site, "LimitResults is not applied to the result of Aggregate: "+c.S(lc.Call.Args[0]))
				continue
			}
			okParams := kk == "P0."+kField && cut == "P0."+cutField
			r.Check(okParams, rule, key+":params", site, "limit uses the builder's k, autocut the builder's cutoff",
				fmt.Sprintf("limit argument is %s (want P0.%s), cutoff argument is %s (want P0.%s)", kk, kField, cut, cutField))
			// the aggregated list is fed by appends of the per-query routine's results
			fed := false
			var visit func(v ssa.Value, depth int)
			seen := map[ssa.Value]bool{}
			visit = func(v ssa.Value, depth int) {
				if v == nil || seen[v] || depth > 12 {
					return
				}
				seen[v] = true
				switch x := v.(type) {
				case *ssa.Phi:
					for _, e := range x.Edges {
						visit(e, depth+1)
					}
				case *ssa.Call:
					if b, ok := x.Call.Value.(*ssa.Builtin); ok && b.Name() == "append" {
						visit(x.Call.Args[0], depth+1)
						visit(x.Call.Args[1], depth+1)
					}
					if staticCallee(x.Common()) == single {
						fed = true
					}
				case *ssa.Extract:
					// the collecting loop extracted into a method of the same search object: follow its returned list
					if call, ok := x.Tuple.(*ssa.Call); ok {
						if g := staticCallee(call.Common()); g != nil && g != single && g.Pkg == w.SPkg && g.Signature.Recv() != nil &&
							types.Identical(g.Signature.Recv().Type(), exec.Signature.Recv().Type()) {
							for _, ret := range returnsOf(g) {
								if x.Index < len(ret.Results) {
									visit(ret.Results[x.Index], depth+1)
								}
							}
							r.Analysed(w.Name(g))
						}
					}
					visit(x.Tuple, depth+1)
				case *ssa.UnOp:
					if a, ok := x.X.(*ssa.Alloc); ok {
						for _, ref := range *a.Referrers() {
							if st, ok := ref.(*ssa.Store); ok && st.Addr == ssa.Value(a) {
								visit(st.Val, depth+1)
							}
						}
					}
				}
			}
			visit(agg.Call.Args[0], 0)
			r.Check(fed, rule, key+":source", site, "Aggregate receives the concatenated per-query results of "+w.Name(single),
				"the list passed to Aggregate is not fed by the per-query search routine")
			// the aggregation object comes from the factory applied to the builder's kind (default Sum)
			aggObj := c.S(agg.Call.Value)
			factory := "NewVectorAggregation("
			if modality == "text" {
				factory = "NewTextAggregation("
			}
			r.Check(strings.Contains(aggObj, factory), rule, key+":factory", site, "aggregation implementation is selected by "+factory+"kind)",
				"aggregation object is "+aggObj)
		}
	}
	ruleDefaultAggregation(r, rule, exec)
}

// ruleDefaultAggregation: the kind passed to the aggregation factory is the builder's kind, replaced by Sum when empty.
func ruleDefaultAggregation(r *Run, rule string, exec *ssa.Function) {
	w := r.W
	name := w.Name(exec)
	recvT := exec.Signature.Recv().Type()
	aggField := builderField(w, recvT, "WithScoreAggregation")
	for _, call := range callsIn(exec, func(c *ssa.CallCommon) bool {
		n := calleeName(c)
		return strings.HasSuffix(n, ".NewVectorAggregation") || strings.HasSuffix(n, ".NewTextAggregation")
	}) {
		site := w.InstrPos(call) + " " + name
		arg := call.Common().Args[0]
		ok := false
		detail := ""
		c := NewCanon(w)
		if phi, isPhi := arg.(*ssa.Phi); isPhi && len(phi.Edges) == 2 {
			var hasField, hasSum bool
			for _, e := range phi.Edges {
				s := c.S(e)
				if s == "P0."+aggField {
					hasField = true
				}
				if cst, isC := e.(*ssa.Const); isC && cst.Value != nil && strings.Trim(cst.Value.ExactString(), "\"") == "sum" {
					hasSum = true
				}
			}
			ok = hasField && hasSum
			detail = c.S(arg)
		} else {
			detail = c.S(arg)
			ok = detail == "P0."+aggField
		}
		r.Check(ok, rule, name+":kind", site, "aggregation kind = builder's kind, defaulting to sum", "aggregation kind argument is "+detail)
	}
}

// ---------------------------------------------------------------- node lookup

// ruleNodeLookup: a vector is appended only for a found, not-deleted id; deleted/unknown ids return an error.
func ruleNodeLookup(r *Run, rule string, k *vecKind) {
	w := r.W
	fn := k.Lookup
	name := w.Name(fn)
	r.Analysed(name)
	r.Doc(rule, "an unknown or removed node id is silently accepted as a query")
	idxField := indexFieldOf(k.SearchT, k.IndexT)
	delCanon := "P0." + idxField + "." + k.DelField
	c := NewCanon(w)
	// sinks: appends to the [][]float32 result
	var sinks []*ssa.Call
	allInstrs(fn, func(in ssa.Instruction) {
		if call, ok := isBuiltinCall(in, "append"); ok {
			if tstr(call.Type(), nil) == "[][]float32" {
				sinks = append(sinks, call)
			}
		}
	})
	if len(sinks) == 0 {
		// PQ-style kinds may refuse node queries altogether: then every return must be an error
		allErr := true
		for _, ret := range returnsOf(fn) {
			if classifyErr(ret) != ErrNonNil {
				allErr = false
			}
		}
		r.Check(allErr, rule, k.Name+":lookup", w.Pos(fn.Pos())+" "+name, "node lookup always fails (kind keeps no raw vectors)", "node lookup appends nothing but can return success")
		return
	}
	nodeIDs := builderField(w, k.SearchT, "WithNode")
	for i, s := range sinks {
		site := w.InstrPos(s) + " " + name
		key := fmt.Sprintf("%s:lookup#%d", k.Name, i)
		// find a dominating soft-delete test on the requested id whose "deleted" outcome cannot reach the append
		var test *ssa.Call
		for _, call := range callsIn(fn, func(cc *ssa.CallCommon) bool { return calleeName(cc) == roaringBitmap+"Contains" }) {
			cv := call.(*ssa.Call)
			if c.S(cv.Call.Args[0]) == delCanon && c.S(cv.Call.Args[1]) == "P0."+nodeIDs+"[range]" && domInstr(cv, s) {
				test = cv
			}
		}
		byPaths := false
		if test == nil {
			// not by dominance (a not-found arm may bypass the test and fail): on every feasible path that reaches the
			// append, the last soft-delete test of the requested id came out "not deleted"; and a "deleted" outcome
			// never reaches the append
			var tests []*ssa.Call
			for _, call := range callsIn(fn, func(cc *ssa.CallCommon) bool { return calleeName(cc) == roaringBitmap+"Contains" }) {
				cv := call.(*ssa.Call)
				if c.S(cv.Call.Args[0]) == delCanon && c.S(cv.Call.Args[1]) == "P0."+nodeIDs+"[range]" {
					tests = append(tests, cv)
				}
			}
			okPaths := len(tests) > 0
			if okPaths {
				paths, trunc := sinkIterationPaths(fn, s)
				if trunc {
					okPaths = false
				}
				reached := false
				for _, pth := range paths {
					if !pth.Feasible() || !pth.Has(s) {
						continue
					}
					reached = true
					// position of the (last) append on the path, and the last test decision before it
					at := -1
					for j, b := range pth.Blocks {
						if b == s.Block() {
							at = j
						}
					}
					last := 0 // 0 none, 1 not deleted, 2 deleted
					for _, d := range pth.Decisions {
						if d.At >= at {
							break
						}
						cond, neg := stripNot(d.Cond)
						for _, tcall := range tests {
							if cond == ssa.Value(tcall) {
								if d.Taken != neg {
									last = 2
								} else {
									last = 1
								}
							}
						}
					}
					if last != 1 {
						okPaths = false
					}
				}
				if !reached {
					okPaths = false
				}
			}
			r.Check(okPaths, rule, key+":deleted", site, "every path to the append passed the soft-delete test of the requested id with outcome 'not deleted'", "no soft-delete test on the requested node id guards the append")
			if !okPaths {
				continue
			}
			test = tests[0]
			byPaths = true
		}
		// the branch on the test: the true (deleted) successor must not reach the append within the same iteration … it must return an error
		gated := byPaths // decided on paths above
		for _, ref := range *test.Referrers() {
			if byPaths {
				break
			}
			iff, ok := ref.(*ssa.If)
			if !ok {
				continue
			}
			delSucc := iff.Block().Succs[0]
			reach := reachAvoid(fn, delSucc.Instrs[0], func(in ssa.Instruction) bool { return in == ssa.Instruction(s) }, func(in ssa.Instruction) bool {
				_, isRet := in.(*ssa.Return)
				return isRet
			})
			first := delSucc.Instrs[0] == ssa.Instruction(s)
			if reach == nil && !first {
				// and the deleted branch returns a non-nil error
				if ret, ok := delSucc.Instrs[len(delSucc.Instrs)-1].(*ssa.Return); ok && classifyErr(ret) == ErrNonNil {
					gated = true
				}
			}
		}
		r.Check(gated, rule, key+":deleted", site, "deleted id ⇒ error return before any append", "the soft-deleted outcome of the test does not lead to an error return")
		// the appended vector belongs to an element with the requested id
		elems, _ := appendedElems(s)
		okElem := false
		detail := ""
		if len(elems) == 1 {
			es := c.S(elems[0])
			detail = es
			want := "P0." + nodeIDs + "[range]"
			// map lookup nodes[id]…  or  scan with a dominating equality test get:id(e) == id
			if strings.Contains(es, "["+want+"]") {
				okElem = true
			} else if strings.HasPrefix(es, "get:vector(") {
				e := strings.TrimSuffix(strings.TrimPrefix(es, "get:vector("), ")")
				for b := s.Block(); b != nil && !okElem; b = b.Idom() {
					d := b.Idom()
					if d == nil {
						break
					}
					if iff, ok := d.Instrs[len(d.Instrs)-1].(*ssa.If); ok {
						if bo, ok := iff.Cond.(*ssa.BinOp); ok && bo.Op == token.EQL && (d.Succs[0] == b || d.Succs[0].Dominates(b)) {
							l, rr := c.S(bo.X), c.S(bo.Y)
							// the element may be a struct embedding the node (cv.Node) — compare on containment
							idOf := func(s string) bool {
								return strings.HasPrefix(s, "get:id(") && strings.Contains(e, strings.TrimSuffix(strings.TrimPrefix(s, "get:id("), ")"))
							}
							if (idOf(l) && rr == want) || (idOf(rr) && l == want) {
								okElem = true
							}
						}
					}
				}
			}
		}
		if !okElem && len(elems) == 1 {
			// resolved per path: the appended value is the vector of an element whose id was compared equal to the
			// requested id earlier on that path
			want := "P0." + nodeIDs + "[range]"
			paths, trunc := sinkIterationPaths(fn, s)
			good, reached := !trunc, false
			for _, pth := range paths {
				if !pth.Feasible() || !pth.Has(s) {
					continue
				}
				reached = true
				cp := NewCanon(w)
				rv := resolveOnPath(pth, elems[0])
				es := cp.S(rv)
				// node.Vector() of a node chosen earlier on the path (found-flag form): the receiver is resolved
				if call, isCall := rv.(*ssa.Call); isCall && strings.HasPrefix(es, "get:vector(") {
					var recv ssa.Value
					if call.Call.IsInvoke() {
						recv = call.Call.Value
					} else if len(call.Call.Args) > 0 {
						recv = call.Call.Args[0]
					}
					if a, isA := recv.(*ssa.Alloc); isA {
						if sv := singleStore(a); sv != nil {
							recv = sv // the node was copied into an addressable local for the pointer-receiver call
						}
					}
					if _, isPhi := recv.(*ssa.Phi); isPhi {
						if rr := resolveOnPath(pth, recv); rr != recv {
							es = "get:vector(" + cp.S(rr) + ")"
						}
					}
				}
				if !strings.HasPrefix(es, "get:vector(") {
					good = false
					continue
				}
				e := strings.TrimSuffix(strings.TrimPrefix(es, "get:vector("), ")")
				tied := false
				for _, d := range pth.Decisions {
					bo, ok := d.Cond.(*ssa.BinOp)
					if !ok || !((bo.Op == token.EQL && d.Taken) || (bo.Op == token.NEQ && !d.Taken)) {
						continue // the ids are equal on this path: `==` taken, or `!=` not taken (guard clause)
					}
					l, rr := cp.S(bo.X), cp.S(bo.Y)
					idOf := func(s string) bool {
						return strings.HasPrefix(s, "get:id(") && strings.Contains(e, strings.TrimSuffix(strings.TrimPrefix(s, "get:id("), ")"))
					}
					if (idOf(l) && rr == want) || (idOf(rr) && l == want) {
						tied = true
					}
				}
				if !tied {
					good = false
				}
			}
			if good && reached {
				okElem = true
			}
		}
		if !okElem && len(elems) == 1 {
			// X[slices.IndexFunc(X, func(e) bool { return e.ID() == id })] guarded by index ≥ 0
			want := "P0." + nodeIDs + "[range]"
			allInstrs(fn, func(in ssa.Instruction) {
				ia, ok := in.(*ssa.IndexAddr)
				if !ok || okElem {
					return
				}
				call, ok := ia.Index.(*ssa.Call)
				if !ok || !strings.HasPrefix(calleeName(call.Common()), "slices.IndexFunc") || len(call.Call.Args) != 2 {
					return
				}
				if !strings.Contains(c.S(elems[0]), c.S(ia)) || c.S(call.Call.Args[0]) != c.S(ia.X) {
					return
				}
				mc, ok := call.Call.Args[1].(*ssa.MakeClosure)
				if !ok {
					return
				}
				g, ok := mc.Fn.(*ssa.Function)
				if !ok {
					return
				}
				cg := NewCanon(w)
				pred := false
				for _, ret := range returnsOf(g) {
					if bo, ok := ret.Results[0].(*ssa.BinOp); ok && bo.Op == token.EQL {
						l, rr := cg.S(bo.X), cg.S(bo.Y)
						var fv string
						switch {
						case l == "get:id(P0)" && strings.HasPrefix(rr, "FV"):
							fv = rr
						case rr == "get:id(P0)" && strings.HasPrefix(l, "FV"):
							fv = l
						}
						if fv != "" {
							if t, ok := translatePath(c, fv, nil, mc.Bindings); ok && t == want {
								pred = true
							}
						}
					}
				}
				if !pred {
					return
				}
				// found ⇔ index ≥ 0: the use is on the non-negative side of a test of the index
				for b := s.Block(); b != nil; b = b.Idom() {
					d := b.Idom()
					if d == nil {
						break
					}
					iff, ok := d.Instrs[len(d.Instrs)-1].(*ssa.If)
					if !ok {
						continue
					}
					bo, ok := iff.Cond.(*ssa.BinOp)
					if !ok || bo.X != ssa.Value(call) {
						continue
					}
					k0, isC := bo.Y.(*ssa.Const)
					if !isC || k0.Value == nil {
						continue
					}
					onTrue := d.Succs[0] == b || d.Succs[0].Dominates(b)
					onFalse := d.Succs[1] == b || d.Succs[1].Dominates(b)
					v := k0.Int64()
					switch {
					case bo.Op == token.LSS && v == 0 && onFalse, bo.Op == token.GEQ && v == 0 && onTrue,
						bo.Op == token.EQL && v == -1 && onFalse, bo.Op == token.NEQ && v == -1 && onTrue, bo.Op == token.GTR && v == -1 && onTrue:
						okElem = true
					}
				}
			})
		}
		r.Check(okElem, rule, key+":match", site, "appended vector belongs to the element whose id equals the requested id",
			"appended vector "+detail+" is not tied to the requested id")
	}
	// unknown id ⇒ error: there must be at least two error returns (deleted, not found) or one combined
	nerr := 0
	for _, ret := range returnsOf(fn) {
		if classifyErr(ret) == ErrNonNil {
			nerr++
		}
	}
	r.Check(nerr >= 1, rule, k.Name+":lookup:errors", w.Pos(fn.Pos())+" "+name, fmt.Sprintf("%d error returns", nerr), "node lookup has no error return")
	ruleLookupNotFound(r, rule, k, sinks)
}

// ruleLookupNotFound: on the path where no element matched, the function returns an error:
// every path from the loop over node ids back to its header (next id) or to the success return passes
// through an append (found) — checked as: from the function entry, the success return is not reachable
// when both the append and error returns are avoided, unless the node-id list is empty.
func ruleLookupNotFound(r *Run, rule string, k *vecKind, sinks []*ssa.Call) {
	w := r.W
	fn := k.Lookup
	name := w.Name(fn)
	loops := loopsOf(fn)
	// outer loop = largest loop containing a sink
	var outer *Loop
	for _, l := range loops {
		if l.Blocks[sinks[0].Block()] && (outer == nil || len(l.Blocks) > len(outer.Blocks)) {
			outer = l
		}
	}
	if outer == nil {
		r.Und(rule, k.Name+":lookup:notfound", w.Pos(fn.Pos())+" "+name, "node-id loop not found")
		return
	}
	isSink := func(in ssa.Instruction) bool {
		for _, s := range sinks {
			if in == ssa.Instruction(s) {
				return true
			}
		}
		return false
	}
	// one iteration of the outer loop: paths from header back to header that avoid every append
	paths, trunc := enumPaths(outer.Header, walkCfg{
		Stop:      func(b *ssa.BasicBlock) bool { return b == outer.Header || !outer.Blocks[b] },
		MaxVisits: 2, MaxPaths: 5000,
	})
	if trunc {
		r.Und(rule, k.Name+":lookup:notfound", w.Pos(fn.Pos())+" "+name, "too many paths")
		return
	}
	// a path that returns to the header without an append is acceptable only if it is infeasible:
	// `found` flag pattern — the decision on the flag must contradict the flag's value on the path.
	bad := 0
	for _, p := range paths {
		if p.End != EndStop || p.Blocks[len(p.Blocks)-1] != outer.Header || len(p.Blocks) <= 2 {
			continue
		}
		has := false
		for _, in := range p.Instrs() {
			if isSink(in) {
				has = true
			}
		}
		if has {
			continue
		}
		feasible := p.Feasible()
		if feasible {
			bad++
		}
	}
	r.Check(bad == 0, rule, k.Name+":lookup:notfound", w.Pos(fn.Pos())+" "+name,
		"every feasible iteration over a requested id either appends its vector or returns an error",
		fmt.Sprintf("%d feasible iteration paths neither append a vector nor return an error (unknown id silently skipped)", bad))
}

// elemIndexOf: v is X[i].f (or X[i]) loaded from a slice element; returns i.
func elemIndexOf(v ssa.Value) ssa.Value {
	for d := 0; d < 6; d++ {
		switch x := v.(type) {
		case *ssa.UnOp:
			v = x.X
		case *ssa.FieldAddr:
			v = x.X
		case *ssa.Field:
			v = x.X
		case *ssa.IndexAddr:
			return x.Index
		default:
			return nil
		}
	}
	return nil
}

// elemIndexAddrOf: v is X[i].f (or X[i]) possibly read through an addressable copy of the element; returns &X[i].
func elemIndexAddrOf(v ssa.Value) *ssa.IndexAddr {
	for d := 0; d < 8 && v != nil; d++ {
		switch x := v.(type) {
		case *ssa.UnOp:
			if x.Op != token.MUL {
				return nil
			}
			v = x.X
		case *ssa.Alloc:
			v = singleStore(x)
		case *ssa.FieldAddr:
			v = x.X
		case *ssa.Field:
			v = x.X
		case *ssa.IndexAddr:
			return x
		default:
			return nil
		}
	}
	return nil
}

// fieldNameOfElem: v is X[i].f; returns f.
func fieldNameOfElem(v ssa.Value) string {
	for d := 0; d < 4 && v != nil; d++ {
		switch x := v.(type) {
		case *ssa.UnOp:
			v = x.X
		case *ssa.FieldAddr:
			return fieldName(x.X.Type(), x.Field)
		case *ssa.Field:
			return fieldName(x.X.Type(), x.Field)
		default:
			return ""
		}
	}
	return ""
}

func litFieldsMust(v ssa.Value) map[string]ssa.Value {
	f, _ := litFields(v)
	if f == nil {
		f = map[string]ssa.Value{}
	}
	return f
}

package main

// normalize.go — inlining normal form.
//
// Most rules read one function at a time. Moving a few statements of such a function into a new unexported helper does
// not change behaviour, but it hides those statements from the rule. Before the analysis proper, every call to a
// function the pinned tree does not know (funcs_gen.go) — and that is not a renamed known function (roles.go) — is
// inlined into its caller with the gopls inliner (golang.org/x/tools/internal/refactor/inline, copied under xt/), as long
// as the inliner can do so without wrapping the body in a function literal. The result is an overlay of the source files
// that is type-checked and analysed instead of the files on disk. Nothing is executed; the transformation is the
// semantics-preserving one gopls offers as "inline call".

import (
	"bytes"
	"fmt"
	"go/ast"
	"go/format"
	"go/parser"
	"go/token"
	"go/types"
	"os"
	"sort"
	"strings"

	"cometlint/xt/refactor"
	"cometlint/xt/refactor/inline"

	"golang.org/x/tools/go/packages"
)

func declKey(info *types.Info, d *ast.FuncDecl) string {
	if d.Recv == nil || len(d.Recv.List) == 0 {
		return d.Name.Name
	}
	t := d.Recv.List[0].Type
	star := ""
	if s, ok := t.(*ast.StarExpr); ok {
		t = s.X
		star = "*"
	}
	if ix, ok := t.(*ast.IndexExpr); ok {
		t = ix.X
	}
	if id, ok := t.(*ast.Ident); ok {
		name := id.Name
		if a, ok := typeAlias[name]; ok {
			name = a
		}
		return "(" + star + name + ")." + d.Name.Name
	}
	return d.Name.Name
}

// normalizeHelpers computes the overlay. known tells whether a declaration (by declKey) belongs to the pinned tree or is
// a renamed known function.
func normalizeHelpers(repo, tags, path string, known func(key string) bool) (map[string][]byte, []string, error) {
	overlay := map[string][]byte{}
	var notes []string
	failed := map[string]bool{} // call sites (file:offset of callee name) the inliner could not reduce
	seq := 0
	lastEdit := map[string]string{} // file -> site key of the most recent edit (to undo an edit that does not type-check)
	lastHow := map[string]string{}  // site key -> inliner that made the edit
	noGopls := map[string]bool{}    // sites where the gopls inliner's edit did not type-check: the statement inliner gets a try
	prev := map[string][]byte{}     // file -> content before the most recent edit
	canonRounds, canonOff, lastWasCanon := 0, false, false
	var canonPrev map[string][]byte
	for round := 0; round < 80; round++ {
		cfg := &packages.Config{
			Mode:    packages.NeedName | packages.NeedFiles | packages.NeedCompiledGoFiles | packages.NeedSyntax | packages.NeedTypes | packages.NeedTypesInfo | packages.NeedImports | packages.NeedDeps,
			Dir:     repo,
			Env:     append(os.Environ(), "PATH="+path, "GOWORK=off", "GOFLAGS=-mod=mod", "GOPROXY=off", "GOSUMDB=off", "GOTOOLCHAIN=local"),
			Overlay: overlay,
		}
		if tags != "" {
			cfg.BuildFlags = []string{"-tags=" + tags}
		}
		pkgs, err := packages.Load(cfg, ".")
		if err != nil || len(pkgs) != 1 || len(pkgs[0].Errors) > 0 {
			if round == 0 {
				return nil, nil, nil // the plain load reports the problem
			}
			if lastWasCanon {
				// the spelling pass produced something ill-typed: undo it and go on without it
				for f, b := range canonPrev {
					if b != nil {
						overlay[f] = b
					} else {
						delete(overlay, f)
					}
				}
				canonOff, lastWasCanon = true, false
				continue
			}
			// undo the previous round's edits and remember not to try them again
			if len(lastEdit) == 0 {
				return nil, nil, fmt.Errorf("normalisation produced an ill-typed overlay in round %d", round)
			}
			for f, k := range lastEdit {
				if lastHow[k] == "gopls inliner" && !noGopls[k] {
					noGopls[k] = true
				} else {
					failed[k] = true
				}
				if b, ok := prev[f]; ok && b != nil {
					overlay[f] = b
				} else {
					delete(overlay, f)
				}
				for i := len(notes) - 1; i >= 0; i-- {
					if strings.Contains(notes[i], relName(repo, f)+":") {
						notes = append(notes[:i], notes[i+1:]...)
						break
					}
				}
			}
			lastEdit = map[string]string{}
			continue
		}
		lastEdit = map[string]string{}
		p := pkgs[0]
		// spelling normal form first (canon_ast.go); its result is type-checked by the next round's load
		if !canonOff && canonRounds < 4 {
			if ed := canonicalSpelling(p, overlay); len(ed) > 0 {
				canonPrev = map[string][]byte{}
				for f, b := range ed {
					canonPrev[f] = overlay[f]
					overlay[f] = b
				}
				canonRounds++
				lastWasCanon = true
				if canonRounds == 1 {
					notes = append(notes, fmt.Sprintf("spelling normal form applied to %d file(s)", len(ed)))
				}
				continue
			}
		}
		lastWasCanon = false
		// unknown declarations
		unknown := map[*types.Func]*ast.FuncDecl{}
		fileOf := map[*ast.FuncDecl]*ast.File{}
		takesFunc := map[*types.Func]bool{}
		takesStream := map[*types.Func]bool{}
		hasStreamParam := func(fd *ast.FuncDecl) bool {
			if fd.Type.Params == nil {
				return false
			}
			for _, fl := range fd.Type.Params.List {
				if t := p.TypesInfo.TypeOf(fl.Type); t != nil {
					switch tstr(t, nil) {
					case "io.Reader", "io.Writer", "io.ReaderFrom", "io.WriterTo":
						return true
					}
				}
			}
			return false
		}
		for _, f := range p.Syntax {
			for _, d := range f.Decls {
				fd, ok := d.(*ast.FuncDecl)
				if !ok || fd.Body == nil || fd.Name.IsExported() || fd.Name.Name == "init" || fd.Name.Name == "_" {
					continue
				}
				if known(declKey(p.TypesInfo, fd)) {
					continue
				}
				if obj, ok := p.TypesInfo.Defs[fd.Name].(*types.Func); ok {
					// helpers that are handed a stream or a codec closure belong to the serialisation code, whose
					// rules read the syntax tree and follow such helpers themselves (fmt_engine.go)
					sig := obj.Type().(*types.Signature)
					streamy := false
					for i := 0; i < sig.Params().Len(); i++ {
						t := sig.Params().At(i).Type()
						if _, isFn := t.Underlying().(*types.Signature); isFn {
							takesFunc[obj] = true // only a problem when called from a WriteTo / ReadFrom (codec closure)
						}
						switch tstr(t, nil) {
						case "io.Reader", "io.Writer", "io.ReaderFrom", "io.WriterTo":
							streamy = true
						}
					}
					if streamy {
						takesStream[obj] = true // left alone where the serialisation code calls it
					}
					unknown[obj] = fd
					fileOf[fd] = f
				}
			}
		}
		// references to unknown functions: static calls (inlinable) and other uses (keep the declaration)
		type site struct {
			file *ast.File
			call *ast.CallExpr
			fn   *types.Func
			// a closure variable that is only called, or an immediately invoked literal (fn is nil then)
			lit  *ast.FuncLit
			cv   *closureVar
			name string
		}
		var sites []site
		otherUse := map[*types.Func]bool{}
		callFun := map[*ast.Ident]bool{}
		for _, f := range p.Syntax {
			ast.Inspect(f, func(n ast.Node) bool {
				call, ok := n.(*ast.CallExpr)
				if !ok {
					return true
				}
				id := calleeIdent(call)
				if id == nil {
					return true
				}
				if fn, ok := p.TypesInfo.Uses[id].(*types.Func); ok && unknown[fn] != nil {
					callFun[id] = true
					// g(X, s.opt…) with integer options of the receiver: decided by the canonical names (defaults.go)
					if optionStepShape(p.TypesInfo, call, fn) {
						otherUse[fn] = true
						return true
					}
					// not a call inside the helper itself (recursion)
					d := unknown[fn]
					if call.Pos() >= d.Pos() && call.End() <= d.End() {
						otherUse[fn] = true
						return true
					}
					if takesStream[fn] {
						// inside a serialisation method, or a helper that is itself handed the stream
						inCodec := false
						for _, dd := range f.Decls {
							if fd, ok := dd.(*ast.FuncDecl); ok && call.Pos() >= fd.Pos() && call.End() <= fd.End() && (fd.Name.Name == "WriteTo" || fd.Name.Name == "ReadFrom" || hasStreamParam(fd)) {
								inCodec = true
							}
						}
						if inCodec {
							otherUse[fn] = true
							return true
						}
					}
					if takesFunc[fn] {
						// inside a serialisation method the function argument is the codec closure: left to the FMT engine
						inCodec := false
						for _, dd := range f.Decls {
							if fd, ok := dd.(*ast.FuncDecl); ok && call.Pos() >= fd.Pos() && call.End() <= fd.End() && (fd.Name.Name == "WriteTo" || fd.Name.Name == "ReadFrom") {
								inCodec = true
							}
						}
						if inCodec {
							otherUse[fn] = true
							return true
						}
					}
					sites = append(sites, site{file: f, call: call, fn: fn})
				}
				return true
			})
		}
		for id, obj := range p.TypesInfo.Uses {
			if fn, ok := obj.(*types.Func); ok && unknown[fn] != nil && !callFun[id] {
				otherUse[fn] = true // method value, go/defer through a value, …
			}
		}
		// closure variables the pinned tree does not have and that are only ever called; immediately invoked literals
		for _, f := range p.Syntax {
			for _, d := range f.Decls {
				fd, ok := d.(*ast.FuncDecl)
				if !ok || fd.Body == nil || fd.Name.Name == "WriteTo" || fd.Name.Name == "ReadFrom" || hasStreamParam(fd) {
					continue
				}
				for _, cv := range localClosures(p.TypesInfo, fd) {
					if closureInventory[declKey(p.TypesInfo, fd)+":"+cv.Obj.Name()] || !cv.Only || len(cv.Calls) == 0 {
						continue
					}
					// the clean-up idiom — no parameters, no results, called from several exits — is read as it stands
					// by the rules that care (rollback on every failing path): copying its body into each exit would
					// only replace one call by a conditional block
					if (cv.Lit.Type.Params == nil || len(cv.Lit.Type.Params.List) == 0) && (cv.Lit.Type.Results == nil || len(cv.Lit.Type.Results.List) == 0) && len(cv.Calls) >= 2 {
						continue
					}
					// innermost first: a literal that still contains calls of other candidate closures waits
					for _, call := range cv.Calls {
						sites = append(sites, site{file: f, call: call, lit: cv.Lit, cv: cv, name: cv.Obj.Name()})
					}
				}
				ast.Inspect(fd.Body, func(n ast.Node) bool {
					switch x := n.(type) {
					case *ast.DeferStmt, *ast.GoStmt:
						return false
					case *ast.CallExpr:
						if lit, ok := x.Fun.(*ast.FuncLit); ok {
							sites = append(sites, site{file: f, call: x, lit: lit, name: "func literal"})
						}
					}
					return true
				})
			}
		}
		if os.Getenv("COMETLINT_DEBUG") != "" {
			var us []string
			for fn := range unknown {
				us = append(us, fn.Name())
			}
			sort.Strings(us)
			fmt.Fprintf(os.Stderr, "normalize: round %d: %d unknown %v, %d sites\n", round, len(unknown), us, len(sites))
		}
		if len(unknown) == 0 && len(sites) == 0 {
			break
		}
		// one inlining per file and round; innermost helpers first (a helper that itself calls an unknown helper waits)
		sort.Slice(sites, func(i, j int) bool { return sites[i].call.Pos() < sites[j].call.Pos() })
		callsUnknown := map[*types.Func]bool{}
		litBusy := map[*ast.FuncLit]bool{}
		siteName := func(s site) string {
			if s.lit != nil {
				return s.name
			}
			return s.fn.Name()
		}
		for _, s := range sites {
			// a nested call that already proved impossible to inline does not hold its caller back
			if failed[fmt.Sprintf("%s:%s:%d", p.Fset.Position(s.file.Pos()).Filename, siteName(s), p.Fset.Position(s.call.Pos()).Offset)] {
				continue
			}
			for fn, d := range unknown {
				if s.call.Pos() >= d.Pos() && s.call.End() <= d.End() {
					callsUnknown[fn] = true
				}
			}
			for _, t := range sites {
				if t.lit != nil && t.lit != s.lit && s.call.Pos() >= t.lit.Pos() && s.call.End() <= t.lit.End() {
					litBusy[t.lit] = true
				}
			}
		}
		done := map[string]bool{}
		progress := false
		for _, s := range sites {
			fname := p.Fset.Position(s.file.Pos()).Filename
			skey := fmt.Sprintf("%s:%s:%d", fname, siteName(s), p.Fset.Position(s.call.Pos()).Offset)
			if s.lit != nil {
				if done[fname] || failed[skey] || litBusy[s.lit] {
					continue
				}
				content := func(name string) []byte {
					if b, ok := overlay[name]; ok {
						return b
					}
					b, _ := os.ReadFile(name)
					return b
				}
				si := &stmtInliner{fset: p.Fset, pkg: p.Types, info: p.TypesInfo, content: content, seq: &seq}
				var self types.Object
				if s.cv != nil {
					self = s.cv.Obj
				}
				out, err2 := func() (out []byte, err error) {
					defer func() {
						if x := recover(); x != nil {
							err = fmt.Errorf("panic: %v", x)
						}
					}()
					return si.inlineLit(s.file, s.call, s.lit, self)
				}()
				if err2 != nil {
					if os.Getenv("COMETLINT_DEBUG") != "" {
						fmt.Fprintf(os.Stderr, "normalize: %s not inlined at %s: %v\n", s.name, p.Fset.Position(s.call.Pos()), err2)
					}
					failed[skey] = true
					continue
				}
				// the last call of a closure variable: its definition goes too (an unused variable does not compile)
				if s.cv != nil && len(s.cv.Calls) == 1 && !si.hoisted {
					dels := append([]ast.Stmt{s.cv.Def}, s.cv.Blank...)
					sort.Slice(dels, func(i, j int) bool { return dels[i].Pos() > dels[j].Pos() })
					okDel := true
					for _, d := range dels {
						if p.Fset.Position(d.End()).Offset > p.Fset.Position(s.call.Pos()).Offset {
							okDel = false
						}
					}
					if okDel {
						for _, d := range dels {
							so, eo := p.Fset.Position(d.Pos()).Offset, p.Fset.Position(d.End()).Offset
							if so >= 0 && eo <= len(out) {
								out = append(append([]byte{}, out[:so]...), out[eo:]...)
							}
						}
					}
				}
				if _, perr := parser.ParseFile(token.NewFileSet(), fname, out, 0); perr != nil {
					failed[skey] = true
					continue
				}
				if formatted, err := format.Source(out); err == nil {
					out = formatted
				}
				if b, ok := overlay[fname]; ok {
					prev[fname] = b
				} else {
					prev[fname] = nil
				}
				overlay[fname] = out
				done[fname] = true
				progress = true
				notes = append(notes, fmt.Sprintf("inlined the call of the local closure %s (the pinned tree has no such closure) at %s:%d [statement inliner]", s.name, relName(repo, fname), p.Fset.Position(s.call.Pos()).Line))
				lastEdit[fname] = skey
				continue
			}
			if done[fname] || failed[skey] || callsUnknown[s.fn] {
				continue
			}
			// the helper's own file must not be edited in the same round either (its positions are used)
			dfile := p.Fset.Position(unknown[s.fn].Pos()).Filename
			if done[dfile] && dfile != fname {
				continue
			}
			content := func(name string) []byte {
				if b, ok := overlay[name]; ok {
					return b
				}
				b, _ := os.ReadFile(name)
				return b
			}
			callee, err := inline.AnalyzeCallee(func(string, ...any) {}, p.Fset, p.Types, p.TypesInfo, unknown[s.fn], content(dfile))
			if err != nil {
				if os.Getenv("COMETLINT_DEBUG") != "" {
					fmt.Fprintf(os.Stderr, "normalize: AnalyzeCallee %s: %v\n", s.fn.Name(), err)
				}
				failed[skey] = true
				continue
			}
			res, err := inline.Inline(&inline.Caller{Fset: p.Fset, Types: p.Types, Info: p.TypesInfo, File: s.file, Call: s.call}, callee, &inline.Options{Recover: true})
			var src []byte
			how := "gopls inliner"
			if err != nil || res.Literalized || noGopls[skey] {
				// statement-level inlining (inline2.go) for what gopls can only wrap in a function literal
				si := &stmtInliner{fset: p.Fset, pkg: p.Types, info: p.TypesInfo, content: content, seq: &seq}
				out, err2 := func() (out []byte, err error) {
					defer func() {
						if x := recover(); x != nil {
							err = fmt.Errorf("panic: %v", x)
						}
					}()
					return si.inlineAt(s.file, s.call, s.fn, unknown[s.fn])
				}()
				if err2 != nil {
					if os.Getenv("COMETLINT_DEBUG") != "" {
						fmt.Fprintf(os.Stderr, "normalize: %s not inlined at %s: %v\n", s.fn.Name(), p.Fset.Position(s.call.Pos()), err2)
					}
					failed[skey] = true
					continue
				}
				src = out
				how = "statement inliner"
			} else {
				src = content(fname)
				edits := append([]inlineEdit{}, toEdits(p.Fset, res.Edits)...)
				sort.Slice(edits, func(i, j int) bool { return edits[i].start > edits[j].start })
				okEdits := true
				for _, e := range edits {
					if e.start < 0 || e.end > len(src) || e.start > e.end {
						okEdits = false
						break
					}
					src = append(append(append([]byte{}, src[:e.start]...), e.text...), src[e.end:]...)
				}
				if !okEdits {
					failed[skey] = true
					continue
				}
			}
			// the edited file must still parse; type errors are caught by the next round's load
			if _, perr := parser.ParseFile(token.NewFileSet(), fname, src, 0); perr != nil {
				failed[skey] = true
				continue
			}
			if formatted, err := format.Source(src); err == nil {
				src = formatted
			}
			if b, ok := overlay[fname]; ok {
				prev[fname] = b
			} else {
				prev[fname] = nil
			}
			overlay[fname] = src
			done[fname] = true
			progress = true
			notes = append(notes, fmt.Sprintf("inlined the call to %s (a helper the pinned tree does not have) at %s:%d [%s]", s.fn.Name(), relName(repo, fname), p.Fset.Position(s.call.Pos()).Line, how))
			lastEdit[fname] = skey
			lastHow[skey] = how
		}
		if progress {
			continue
		}
		// nothing left to inline: drop helpers without any remaining reference (their statements now live in the callers)
		referenced := map[*types.Func]bool{}
		for _, s := range sites {
			if s.fn != nil {
				referenced[s.fn] = true
			}
		}
		removed := false
		byFile := map[string][]*ast.FuncDecl{}
		for fn, d := range unknown {
			if referenced[fn] || otherUse[fn] {
				continue
			}
			fname := p.Fset.Position(d.Pos()).Filename
			byFile[fname] = append(byFile[fname], d)
		}
		for fname, ds := range byFile {
			if failed["remove:"+fname] {
				continue // removing the helpers of this file left it ill-typed (an import only they used): they stay
			}
			src, ok := overlay[fname]
			if !ok {
				src, _ = os.ReadFile(fname)
			}
			sort.Slice(ds, func(i, j int) bool { return ds[i].Pos() > ds[j].Pos() })
			inlinedAny := false
			for _, d := range ds {
				// only helpers whose calls were inlined by this pass (never dead code of the tree itself)
				wasInlined := false
				for _, n := range notes {
					if strings.Contains(n, "the call to "+d.Name.Name+" ") {
						wasInlined = true
					}
				}
				if !wasInlined {
					continue
				}
				start := d.Pos()
				if d.Doc != nil {
					start = d.Doc.Pos()
				}
				so, eo := p.Fset.Position(start).Offset, p.Fset.Position(d.End()).Offset
				if so < 0 || eo > len(src) {
					continue
				}
				src = append(append([]byte{}, src[:so]...), src[eo:]...)
				inlinedAny = true
			}
			if inlinedAny {
				if formatted, err := format.Source(src); err == nil {
					src = formatted
				}
				if b, ok := overlay[fname]; ok {
					prev[fname] = b
				} else {
					prev[fname] = nil
				}
				lastEdit[fname] = "remove:" + fname
				overlay[fname] = src
				removed = true
			}
		}
		if !removed {
			break
		}
	}
	if len(overlay) == 0 {
		return nil, nil, nil
	}
	if d := os.Getenv("COMETLINT_DUMP_OVERLAY"); d != "" {
		os.MkdirAll(d, 0o755)
		for f, b := range overlay {
			os.WriteFile(d+"/"+relName(repo, f), b, 0o644)
		}
	}
	return overlay, notes, nil
}

type inlineEdit struct {
	start, end int
	text       []byte
}

func relName(repo, f string) string {
	return strings.TrimPrefix(strings.TrimPrefix(f, repo), "/")
}

var _ = bytes.Equal
var _ token.Pos

type inlineTextEdit = refactor.Edit

func toEdits(fset *token.FileSet, es []inlineTextEdit) []inlineEdit {
	var out []inlineEdit
	for _, e := range es {
		s := fset.Position(e.Pos).Offset
		en := s
		if e.End.IsValid() {
			en = fset.Position(e.End).Offset
		}
		out = append(out, inlineEdit{s, en, e.NewText})
	}
	return out
}

// optionStepShape: call is g(X, s.a, s.b…) — one result, at least one further argument, every further argument an
// integer field selected from a plain name. Such a step may be the identity at the options' defaults.
func optionStepShape(info *types.Info, call *ast.CallExpr, fn *types.Func) bool {
	sig := fn.Type().(*types.Signature)
	if sig.Recv() != nil || sig.Results().Len() != 1 || len(call.Args) < 2 || sig.Params().Len() < 2 {
		return false
	}
	// the step hands back what it was given (possibly shortened / widened): same type in and out
	if !types.Identical(sig.Results().At(0).Type(), sig.Params().At(0).Type()) {
		return false
	}
	for _, a := range call.Args[1:] {
		sel, ok := a.(*ast.SelectorExpr)
		if !ok {
			return false
		}
		if _, isID := sel.X.(*ast.Ident); !isID {
			return false
		}
		v, ok := info.Uses[sel.Sel].(*types.Var)
		if !ok || !v.IsField() {
			return false
		}
		bt, ok := v.Type().Underlying().(*types.Basic)
		if !ok || bt.Info()&types.IsInteger == 0 {
			return false
		}
	}
	return true
}

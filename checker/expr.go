package main

// expr.go — normal form for arithmetic expression trees (commutative operands flattened and sorted,
// numeric conversions dropped) so that an expression read off the SSA can be compared with a
// specification expression built with the same constructors.

import (
	"go/constant"
	"go/token"
	"sort"
	"strconv"
	"strings"

	"golang.org/x/tools/go/ssa"
)

type Expr struct {
	W    *World
	Leaf func(v ssa.Value) (string, bool)
	c    *Canon
}

func NewExpr(w *World) *Expr { return &Expr{W: w, c: NewCanon(w)} }

func eNary(op string, xs ...string) string {
	var flat []string
	for _, x := range xs {
		if strings.HasPrefix(x, op+"(") && strings.HasSuffix(x, ")") {
			flat = append(flat, splitTop(x[len(op)+1:len(x)-1])...)
		} else {
			flat = append(flat, x)
		}
	}
	sort.Strings(flat)
	return op + "(" + strings.Join(flat, ",") + ")"
}

func splitTop(s string) []string {
	var out []string
	depth, start := 0, 0
	for i := 0; i < len(s); i++ {
		switch s[i] {
		case '(', '[':
			depth++
		case ')', ']':
			depth--
		case ',':
			if depth == 0 {
				out = append(out, s[start:i])
				start = i + 1
			}
		}
	}
	return append(out, s[start:])
}

func eAdd(xs ...string) string { return eNary("add", xs...) }
func eMul(xs ...string) string { return eNary("mul", xs...) }
func eSub(a, b string) string  { return "sub(" + a + "," + b + ")" }
func eDiv(a, b string) string  { return "div(" + a + "," + b + ")" }
func eCall(f, a string) string { return f + "(" + a + ")" }
func eNum(f float64) string    { return strconv.FormatFloat(f, 'g', -1, 64) }

// S prints the normal form of v.
func (e *Expr) S(v ssa.Value) string {
	switch v.(type) {
	case *ssa.BinOp, *ssa.Convert, *ssa.ChangeType:
	default:
		if e.Leaf != nil {
			if s, ok := e.Leaf(v); ok {
				return s
			}
		}
	}
	switch x := v.(type) {
	case *ssa.Const:
		if x.Value != nil && (x.Value.Kind() == constant.Int || x.Value.Kind() == constant.Float) {
			f, _ := constant.Float64Val(x.Value)
			return eNum(f)
		}
	case *ssa.Convert:
		return e.S(x.X)
	case *ssa.ChangeType:
		return e.S(x.X)
	case *ssa.BinOp:
		switch x.Op {
		case token.ADD:
			return eAdd(e.S(x.X), e.S(x.Y))
		case token.MUL:
			return eMul(e.S(x.X), e.S(x.Y))
		case token.SUB:
			return eSub(e.S(x.X), e.S(x.Y))
		case token.QUO:
			return eDiv(e.S(x.X), e.S(x.Y))
		}
	case *ssa.UnOp:
		if x.Op == token.SUB {
			return "neg(" + e.S(x.X) + ")"
		}
		if x.Op == token.MUL {
			if a, ok := x.X.(*ssa.Alloc); ok {
				if sv := singleStore(a); sv != nil {
					return e.S(sv)
				}
			}
		}
	case *ssa.Call:
		if f := staticCallee(x.Common()); f != nil && f.Pkg != nil && f.Pkg.Pkg.Path() == "math" && len(x.Call.Args) == 1 {
			return eCall("math."+f.Name(), e.S(x.Call.Args[0]))
		}
	}
	return "?" + e.c.S(v)
}

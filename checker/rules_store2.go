package main

// rules_store2.go — persistent store: durability (C09), crash consistency (C10), directory ownership (C17).

import (
	"fmt"
	"go/constant"
	"go/token"
	"go/types"
	"os"
	"strings"

	"golang.org/x/tools/go/ssa"
)

func callsTo(fn *ssa.Function, suffix string) []*ssa.Call {
	var out []*ssa.Call
	allInstrs(fn, func(in ssa.Instruction) {
		if c, ok := in.(*ssa.Call); ok && strings.HasSuffix(calleeName(c.Common()), suffix) {
			out = append(out, c)
		}
	})
	return out
}

// ruleActiveFlushed: C09.ACTIVE.
func ruleActiveFlushed(r *Run, rule string, k *storeKind) {
	w := r.W
	r.Doc(rule, "documents that never triggered a rotation are not on disk when Flush / Close return nil")
	for _, fn := range []*ssa.Function{k.Flush, k.Worker} {
		name := w.Name(fn)
		r.Analysed(name)
		rot := callsTo(fn, "(*"+cometPath+".memtableQueue).rotateIfNotEmpty")
		rot = append(rot, callsTo(fn, "(*"+cometPath+".memtableQueue).Rotate")...)
		var fl []*ssa.Call
		for _, c := range callsIn(fn, func(cc *ssa.CallCommon) bool { return staticCallee(cc) == k.FlushAll }) {
			fl = append(fl, c.(*ssa.Call))
		}
		site := w.Pos(fn.Pos()) + " " + name
		if fn == k.Flush {
			ok := len(rot) > 0 && len(fl) == 1 && domInstr(rot[0], fl[0])
			r.Check(ok, rule, "active:"+name, site, "the active memtable is rotated (if non-empty) before the frozen ones are flushed", "Flush does not freeze the active memtable before flushing")
			// the flush result is what is returned
			okRet := false
			for _, ret := range returnsOf(fn) {
				if len(fl) == 1 && resultValue(ret, 0) == ssa.Value(fl[0]) {
					okRet = true
				}
			}
			r.Check(okRet, rule, "active:"+name+":returns-flush-error", site, "Flush returns the result of flushing", "the error of flushing is not what Flush returns")
			continue
		}
		// worker: the final flush (the flush call whose result is stored into a receiver field) is preceded by a rotation
		var final *ssa.Call
		for _, f := range fl {
			for _, ref := range *f.Referrers() {
				if st, ok := ref.(*ssa.Store); ok && strings.HasPrefix(c2s(w, st.Addr), "P0.") {
					final = f
				}
			}
		}
		if final == nil {
			r.Bad(rule, "active:"+name+":final", site, "the final flush's error is not recorded for Close")
			continue
		}
		ok := false
		for _, ro := range rot {
			if ro.Block() == final.Block() && domInstr(ro, final) {
				ok = true
			}
		}
		r.Check(ok, rule, "active:"+name+":final", w.InstrPos(final)+" "+name, "the final flush at Close rotates the active memtable first and records its error", "the final flush at Close does not freeze the active memtable first")
	}
	// rotateIfNotEmpty rotates ⇔ count() > 0, and count is bumped on every successful add
	if fn := r.W.Fn("(*memtableQueue).rotateIfNotEmpty"); fn != nil {
		c := NewCanon(w)
		ok := false
		allInstrs(fn, func(in ssa.Instruction) {
			if bo, okb := in.(*ssa.BinOp); okb {
				cmp, neg, okc := normCmp(c, bo)
				if okc && !neg && cmp.Op == token.LSS && cmp.L == "c(0)" && strings.Contains(cmp.R, "count(P0.mutable)") {
					ok = true
				}
			}
		})
		_ = ok // (the spelling of the guard is no longer required: the table below decides when the rotation runs)
		// rotated ⇔ the active memtable holds something
		var rot ssa.Instruction
		allInstrs(fn, func(in ssa.Instruction) {
			if call, okc := in.(*ssa.Call); okc {
				if g := staticCallee(call.Common()); g != nil && g.Pkg == w.SPkg && strings.HasPrefix(fnShortName(g), "rotate") {
					rot = in
				}
			}
		})
		if rot == nil {
			r.Bad(rule, "active:rotateIfNotEmpty:table", w.Pos(fn.Pos())+" "+w.Name(fn), "rotateIfNotEmpty never rotates")
		} else {
			rows, _ := regionPaths(fn.Blocks[0], func(*ssa.BasicBlock) bool { return false }, func(cond ssa.Value) (string, bool) {
				bo, okb := cond.(*ssa.BinOp)
				if !okb {
					return "", false
				}
				cmp, neg, okc := normCmp(c, bo)
				if !okc {
					return "", false
				}
				isCount := func(s string) bool { return strings.Contains(s, "count(P0.mutable)") }
				switch {
				case cmp.Op == token.LSS && cmp.L == "c(0)" && isCount(cmp.R): // 0 < count
					return "NONEMPTY", neg
				case cmp.Op == token.LEQ && isCount(cmp.L) && cmp.R == "c(0)": // count <= 0
					return "NONEMPTY", !neg
				case cmp.Op == token.EQL && (isCount(cmp.L) && cmp.R == "c(0)" || isCount(cmp.R) && cmp.L == "c(0)"): // count == 0
					return "NONEMPTY", !neg
				case cmp.Op == token.LEQ && cmp.L == "c(1)" && isCount(cmp.R): // 1 <= count
					return "NONEMPTY", neg
				}
				return "", false
			}, 1)
			bad, _ := tableCheck([]string{"NONEMPTY"}, rows, func(row pathRow) string {
				if row.P.Has(rot) {
					return "rotate"
				}
				return "keep"
			}, func(a map[string]bool) string {
				if a["NONEMPTY"] {
					return "rotate"
				}
				return "keep|rotate" // rotating an empty memtable only wastes a segment; not rotating a non-empty one loses its documents
			})
			r.Check(len(bad) == 0, rule, "active:rotateIfNotEmpty:table", w.InstrPos(rot)+" "+w.Name(fn), "the active memtable is frozen whenever it holds a document", "a non-empty active memtable is not frozen: "+truncList(bad, 2))
		}
	}
	// the queue forgets exactly the memtable it is told to: the element equal to the argument, shifted out, never the last
	// (active) one
	if fn := r.W.Fn("(*memtableQueue).remove"); fn != nil {
		c := NewCanon(w)
		var shift, trunc ssa.Instruction
		var appendIdx ssa.Value
		allInstrs(fn, func(in ssa.Instruction) {
			if call, okc := isBuiltinCall(in, "copy"); okc {
				d, sr := c.S(call.Call.Args[0]), c.S(call.Call.Args[1])
				// copy(queue[i:], queue[i+1:])
				if strings.HasPrefix(d, "P0.queue[") && strings.HasPrefix(sr, "P0.queue[") {
					dsl, okD := call.Call.Args[0].(*ssa.Slice)
					ssl, okS := call.Call.Args[1].(*ssa.Slice)
					if okD && okS && dsl.High == nil && ssl.High == nil {
						if bo, okB := ssl.Low.(*ssa.BinOp); okB && bo.Op == token.ADD && bo.X == dsl.Low && c.S(bo.Y) == "c(1)" {
							shift = in
						}
					}
				}
			}
			if st, okS := in.(*ssa.Store); okS && c.S(st.Addr) == "P0.queue" {
				if sl, okSl := st.Val.(*ssa.Slice); okSl && sl.Low == nil && c.S(sl.High) == "(len(P0.queue)-c(1))" {
					trunc = in
				}
				// q = slices.Delete(q, i, i+1): shift and truncation in one (the library's own copy-down)
				if dc, okD := st.Val.(*ssa.Call); okD && strings.HasPrefix(calleeName(dc.Common()), "slices.Delete") && len(dc.Call.Args) == 3 && c.S(dc.Call.Args[0]) == "P0.queue" {
					if bo, okB := dc.Call.Args[2].(*ssa.BinOp); okB && bo.Op == token.ADD && bo.X == dc.Call.Args[1] && c.S(bo.Y) == "c(1)" {
						shift, trunc = dc, in
						appendIdx = dc.Call.Args[1]
					}
				}
				// q = append(q[:i], q[i+1:]...): shift and truncation in one
				if ac, okA := st.Val.(*ssa.Call); okA {
					if bi, isB := ac.Call.Value.(*ssa.Builtin); isB && bi.Name() == "append" && len(ac.Call.Args) == 2 {
						head, okH := ac.Call.Args[0].(*ssa.Slice)
						tail, okT := ac.Call.Args[1].(*ssa.Slice)
						if okH && okT && head.Low == nil && tail.High == nil && c.S(head.X) == "P0.queue" && c.S(tail.X) == "P0.queue" {
							if bo, okB := tail.Low.(*ssa.BinOp); okB && bo.Op == token.ADD && bo.X == head.High && c.S(bo.Y) == "c(1)" {
								shift, trunc = ac, in
								appendIdx = head.High
							}
						}
					}
				}
			}
		})
		site := w.Pos(fn.Pos()) + " " + w.Name(fn)
		if shift == nil || trunc == nil {
			r.Bad(rule, "queue:remove:shape", site, "the queue does not remove by shifting the tail one slot down and dropping the last slot (copy(q[i:], q[i+1:]); q = q[:len(q)-1])")
		} else {
			var idx ssa.Value
			if dsl, okD := shift.(*ssa.Call).Call.Args[0].(*ssa.Slice); okD {
				idx = dsl.Low
			}
			if appendIdx != nil {
				idx = appendIdx
			}
			// the removal ends in a return, so it is not part of the natural loop: one iteration = from the header of the
			// loop that dominates it to the header again or to a return
			var header *ssa.BasicBlock
			for _, l := range loopsOf(fn) {
				if l.Header.Dominates(shift.Block()) {
					header = l.Header
				}
			}
			if header == nil {
				header = fn.Blocks[0]
			}
			classify := func(cond ssa.Value) (string, bool) {
				bo, okb := cond.(*ssa.BinOp)
				if !okb || (bo.Op != token.EQL && bo.Op != token.NEQ) {
					return "", false
				}
				l, rr := c.S(bo.X), c.S(bo.Y)
				switch {
				case (l == "P0.queue[range]" && rr == "P1") || (rr == "P0.queue[range]" && l == "P1"):
					return "SAME", bo.Op == token.NEQ
				case (bo.X == idx && rr == "(len(P0.queue)-c(1))") || (bo.Y == idx && l == "(len(P0.queue)-c(1))"):
					return "LAST", bo.Op == token.NEQ
				}
				return "", false
			}
			paths, _ := enumPaths(header, walkCfg{Stop: func(b *ssa.BasicBlock) bool { return b == header }, MaxVisits: 2, MaxPaths: 2000})
			var rows []pathRow
			for _, pth := range paths {
				if pth.End == EndCycle || !pth.Feasible() || len(pth.Blocks) < 2 {
					continue
				}
				// the way out of the loop when the range is exhausted is not an iteration
				if len(pth.Decisions) > 0 && pth.Decisions[0].If.Block() == header && !pth.Decisions[0].Taken {
					continue
				}
				if row := classifyPath(pth, classify); !row.Conflict {
					rows = append(rows, row)
				}
			}
			bad, _ := tableCheck([]string{"SAME", "LAST"}, rows, func(row pathRow) string {
				if row.P.Has(shift) && row.P.Has(trunc) {
					return "remove"
				}
				if row.P.Has(shift) || row.P.Has(trunc) {
					return "half"
				}
				return "keep"
			}, func(a map[string]bool) string {
				if a["SAME"] && !a["LAST"] {
					return "remove"
				}
				return "keep"
			})
			okIdx := idx != nil && isRangeIndex(idx)
			sameSeen := false
			for _, row := range rows {
				if _, has := row.Atoms["SAME"]; has {
					sameSeen = true
				}
			}
			if !okIdx || !sameSeen {
				// another way of finding the position (an index search first, slices.Index, a counted loop with its own
				// bound): the shape above holds, when it runs is not decided here
				r.Note(rule, "queue:remove:table", w.InstrPos(shift)+" "+w.Name(fn), "the position to remove is not found by a range loop with an identity test; only the shape of the removal was checked")
			} else {
				r.Check(len(bad) == 0 && okIdx, rule, "queue:remove:table", w.InstrPos(shift)+" "+w.Name(fn), "the queue drops exactly the memtable it was given, and never the active one at the end",
					"the queue does not remove exactly `the element equal to the argument, unless it is the last`: "+truncList(bad, 3))
			}
		}
	}
	// the counter only grows: every Add on it adds the constant 1 (a decrement — on a removal that may even be rejected —
	// lets a non-empty memtable read as empty, and Flush then skips it)
	for _, fn := range w.Funcs {
		cm := NewCanon(w)
		for _, call := range callsTo(fn, "atomic.Uint32).Add") {
			if !strings.HasSuffix(cm.S(call.Call.Args[0]), ".numDocs") || namedTypeName(fieldOwner(call.Call.Args[0])) != "memtable" {
				continue
			}
			arg := cm.S(call.Call.Args[1])
			r.Check(arg == "c(1)", rule, "active:count:monotone:"+w.Name(fn), w.InstrPos(call)+" "+w.Name(fn), "the memtable's document counter is only incremented by 1", "the memtable's document counter is changed by "+arg+": count() == 0 no longer means 'holds no documents'")
		}
		for _, d := range deferredCalls(fn) {
			if strings.HasSuffix(calleeName(d.Common()), "atomic.Uint32).Add") && strings.HasSuffix(cm.S(d.Common().Args[0]), ".numDocs") && namedTypeName(fieldOwner(d.Common().Args[0])) == "memtable" {
				arg := cm.S(d.Common().Args[1])
				r.Check(arg == "c(1)", rule, "active:count:monotone:"+w.Name(fn), w.InstrPos(d)+" "+w.Name(fn), "the memtable's document counter is only incremented by 1", "the memtable's document counter is changed by "+arg+" (deferred): count() == 0 no longer means 'holds no documents'")
			}
		}
	}
	for _, m := range []string{"(*memtable).add", "(*memtable).addWithID"} {
		fn := w.Fn(m)
		if fn == nil {
			continue
		}
		// the bump itself, or a call to a helper of the memtable that always performs it (accountFor)
		isBump := liftMust(fn, func(in ssa.Instruction) bool {
			c, ok := in.(*ssa.Call)
			return ok && strings.HasSuffix(calleeName(c.Common()), "atomic.Uint32).Add")
		}, 2)
		var bump []ssa.Instruction
		allInstrs(fn, func(in ssa.Instruction) {
			if isBump(in) {
				bump = append(bump, in)
			}
		})
		esc := successEscapesWrap(fn, isBump)
		r.Check(esc == nil && len(bump) > 0, rule, "active:count:"+m, w.Pos(fn.Pos())+" "+m, "every successful add bumps the document count the rotation guard reads", "a successful add does not bump the document count: a non-empty memtable may look empty to Flush")
	}
}

// ruleDurabilityErrors: C09.ERR.
func ruleDurabilityErrors(r *Run, rule string, k *storeKind) {
	w := r.W
	r.Doc(rule, "nil is acknowledged although bytes were not written")
	ruleCloseErrors(r, rule, k)
	// (a) errors of flushMemtables / flushMemtable / WriteTo are not discarded
	checkUsed := func(fn *ssa.Function, call *ssa.Call, what string) {
		used := false
		for _, ref := range *call.Referrers() {
			switch ref.(type) {
			case *ssa.BinOp, *ssa.Store, *ssa.Return, *ssa.Phi, *ssa.Extract:
				used = true
			}
		}
		r.Check(used, rule, "err:"+w.Name(fn)+":"+what, w.InstrPos(call)+" "+w.Name(fn), "the error of "+what+" is propagated", "the error of "+what+" is discarded")
	}
	for _, fn := range []*ssa.Function{k.Flush, k.Worker, k.FlushAll} {
		for _, c := range callsIn(fn, func(cc *ssa.CallCommon) bool { g := staticCallee(cc); return g == k.FlushAll || g == k.FlushOne }) {
			checkUsed(fn, c.(*ssa.Call), staticCallee(c.Common()).Name())
		}
	}
	// Close returns the recorded final-flush error
	{
		fn := k.Close
		c := NewCanon(w)
		field := ""
		allInstrs(k.Worker, func(in ssa.Instruction) {
			if st, ok := in.(*ssa.Store); ok {
				if call, ok := st.Val.(*ssa.Call); ok && staticCallee(call.Common()) == k.FlushAll {
					field = strings.TrimPrefix(c2s(w, st.Addr), "P0.")
				}
			}
		})
		okRet := false
		for _, ret := range returnsOf(fn) {
			if classifyErr(ret) != ErrNil && field != "" && strings.Contains(c.S(resultValue(ret, 0)), "P0."+field) {
				okRet = true
			}
		}
		// and no nil return is reachable when that field is non-nil: a test `field != nil` dominates the nil return
		okGuard := false
		for _, ret := range returnsOf(fn) {
			if classifyErr(ret) != ErrNil {
				continue
			}
			for b := ret.Block(); b != nil; b = b.Idom() {
				d := b.Idom()
				if d == nil {
					break
				}
				if iff, ok := d.Instrs[len(d.Instrs)-1].(*ssa.If); ok {
					if bo, ok := iff.Cond.(*ssa.BinOp); ok && bo.Op == token.NEQ && c.S(bo.X) == "P0."+field && c.S(bo.Y) == "nil" && (d.Succs[1] == b || d.Succs[1].Dominates(b)) {
						okGuard = true
					}
				}
			}
		}
		if field != "" && !(okRet && okGuard) {
			// single-exit forms (`return errors.Join(flushErr, closeErr)`): decided per path — wherever the recorded error
			// was found non-nil the returned error is non-nil, and no path past the wait skips the test
			paths, trunc := enumPaths(fn.Blocks[0], walkCfg{MaxVisits: 1, MaxPaths: 4000 * pathScale, Decide: decideOnPath})
			wait := callsTo(fn, "(*sync.WaitGroup).Wait")
			good := !trunc && len(wait) == 1
			seen := 0
			for _, p := range paths {
				if !good {
					break
				}
				if p.End != EndReturn || !p.Feasible() || !p.Has(wait[0]) {
					continue
				}
				tested, nonNil := false, false
				for _, d := range p.Decisions {
					bo, isB := d.Cond.(*ssa.BinOp)
					if !isB || (bo.Op != token.NEQ && bo.Op != token.EQL) || c.S(bo.X) != "P0."+field || c.S(bo.Y) != "nil" {
						continue
					}
					tested = true
					nonNil = d.Taken == (bo.Op == token.NEQ)
				}
				seen++
				rv := resolveOnPath(p, resultValue(p.Ret, 0))
				direct := c.S(rv) == "P0."+field
				if !direct && (!tested || (nonNil && !errNonNilOnPath(p, rv, 0))) {
					good = false
				}
			}
			if good && seen > 0 {
				okRet, okGuard = true, true
			}
		}
		r.Check(field != "" && okRet && okGuard, rule, "err:Close:final-flush", w.Pos(fn.Pos())+" "+w.Name(fn), "Close returns the final flush's error (recorded in "+field+") and nil only when it is nil", "the error of the final flush does not reach Close's result")
		// the read happens after the workers finished
		wait := callsTo(fn, "(*sync.WaitGroup).Wait")
		okAfter := len(wait) == 1
		allInstrs(fn, func(in ssa.Instruction) {
			if u, ok := in.(*ssa.UnOp); ok && u.Op == token.MUL && c.S(u.X) == "P0."+field && len(wait) == 1 && !domInstr(wait[0], in) {
				okAfter = false
			}
		})
		r.Check(okAfter, rule, "err:Close:after-wait", w.Pos(fn.Pos())+" "+w.Name(fn), "the recorded error is read after the workers have stopped", "the recorded error is read before wg.Wait()")
	}
	// (b) every gzip writer and file created is closed with its error checked before registration / success
	for _, fn := range []*ssa.Function{k.FlushOne, k.WriteSeg} {
		name := w.Name(fn)
		var creators []*ssa.Call
		allInstrs(fn, func(in ssa.Instruction) {
			if call, ok := in.(*ssa.Call); ok {
				switch calleeName(call.Common()) {
				case "os.Create", "compress/gzip.NewWriter", "os.OpenFile":
					creators = append(creators, call)
				}
			}
		})
		// the close loop: invoke Close on a ranged []io.Closer whose result is compared with nil
		var closeCall *ssa.Call
		allInstrs(fn, func(in ssa.Instruction) {
			if call, ok := in.(*ssa.Call); ok && call.Call.IsInvoke() && call.Call.Method.Name() == "Close" {
				if strings.Contains(c2s(w, call.Call.Value), "[range]") {
					for _, ref := range *call.Referrers() {
						if _, ok := ref.(*ssa.BinOp); ok {
							closeCall = call
						}
					}
				}
			}
		})
		site := w.Pos(fn.Pos()) + " " + name
		if closeCall == nil {
			// alternative: explicit checked Close per creator
			r.Bad(rule, "err:"+name+":close-loop", site, "no loop closes the writers / files with the error checked")
			continue
		}
		// which creators reach the ranged slice
		sliceElems := map[ssa.Value]bool{}
		allInstrs(fn, func(in ssa.Instruction) {
			var elems []ssa.Value
			switch x := in.(type) {
			case *ssa.Call:
				if b, ok := x.Call.Value.(*ssa.Builtin); ok && b.Name() == "append" && strings.Contains(tstr(x.Type(), nil), "io.Closer") {
					elems, _ = appendedElems(x)
				}
			case *ssa.Store:
				if strings.Contains(tstr(x.Val.Type(), nil), "io.Closer") {
					elems = []ssa.Value{x.Val}
				}
			}
			for _, e := range elems {
				var rec func(v ssa.Value, d int)
				seen := map[ssa.Value]bool{}
				rec = func(v ssa.Value, d int) {
					if v == nil || seen[v] || d > 8 {
						return
					}
					seen[v] = true
					sliceElems[v] = true
					switch y := v.(type) {
					case *ssa.MakeInterface:
						rec(y.X, d+1)
					case *ssa.ChangeInterface:
						rec(y.X, d+1)
					case *ssa.Phi:
						for _, ed := range y.Edges {
							rec(ed, d+1)
						}
					case *ssa.Extract:
						rec(y.Tuple, d+1)
					}
				}
				rec(e, 0)
			}
		})
		for i, cr := range creators {
			ok := sliceElems[cr]
			r.Check(ok, rule, fmt.Sprintf("err:%s:closed#%d:%s", name, i, strings.TrimPrefix(calleeName(cr.Common()), "compress/")), w.InstrPos(cr)+" "+name,
				"the created writer / file is closed in the checked close loop", "the writer / file created here is not closed with its error checked on the success path")
		}
		// the loop precedes registration / success and its error is tested
		loop := innermostLoop(loopsOf(fn), closeCall.Block())
		okBefore := loop != nil
		if loop != nil {
			allInstrs(fn, func(in ssa.Instruction) {
				if call, ok := in.(*ssa.Call); ok && strings.HasSuffix(calleeName(call.Common()), "(*"+cometPath+".segmentManager).add") && !loop.Header.Dominates(in.Block()) {
					okBefore = false
				}
				if ret, ok := in.(*ssa.Return); ok && classifyErr(ret) == ErrNil && !loop.Header.Dominates(in.Block()) {
					okBefore = false
				}
			})
		}
		r.Check(okBefore, rule, "err:"+name+":close-before-ack", site, "all closes happen before the segment is registered / success is returned", "success / registration can happen before the writers are closed")
		// WriteTo error kept: the WriteTo result feeds the same error variable that is tested after the loop
		var wt *ssa.Call
		allInstrs(fn, func(in ssa.Instruction) {
			if call, ok := in.(*ssa.Call); ok && call.Call.IsInvoke() && call.Call.Method.Name() == "WriteTo" {
				wt = call
			}
		})
		if wt != nil {
			used := false
			for _, ref := range *wt.Referrers() {
				switch ref.(type) {
				case *ssa.Phi, *ssa.BinOp, *ssa.Store:
					used = true
				}
			}
			r.Check(used, rule, "err:"+name+":WriteTo", w.InstrPos(wt)+" "+name, "the error of WriteTo is kept", "the error of WriteTo is discarded")
		}
	}
}

// ruleSegmentParts: each component file is created iff its template is configured and the matching writer is passed in the
// matching position of WriteTo.
func ruleSegmentParts(r *Run, rule string, k *storeKind) {
	w := r.W
	r.Doc(rule, "a component file is not written although its index is configured (the segment later fails to load and is silently skipped)")
	want := map[int]string{1: "VectorIndexTemplate", 2: "TextIndexTemplate", 3: "MetadataIndexTemplate"}
	for _, fn := range []*ssa.Function{k.FlushOne, k.WriteSeg} {
		name := w.Name(fn)
		c := NewCanon(w)
		n := 0
		fn := fn
		// a path parameter's component: the one whose path the caller passes in that position (result index of the path
		// provider); the order of the path parameters is the helper's own business
		compOfParam := func(p *ssa.Parameter) int {
			comp := paramIndex(p) - 2 // (recv, idx, hybrid, vector, text, metadata)
			for _, caller := range w.Funcs {
				for _, cs := range callsIn(caller, func(cc *ssa.CallCommon) bool { return staticCallee(cc) == fn }) {
					if pi := paramIndex(p); pi < len(cs.Common().Args) {
						if ex, isEx := cs.Common().Args[pi].(*ssa.Extract); isEx {
							comp = ex.Index
						}
					}
				}
			}
			return comp
		}
		allInstrs(fn, func(in ssa.Instruction) {
			call, ok := in.(*ssa.Call)
			if !ok || calleeName(call.Common()) != "os.Create" {
				return
			}
			// which component: extract index of segmentPaths, or the parameter position for writeIndexToSegment
			comp := -1
			arg := call.Call.Args[0]
			if ex, ok := arg.(*ssa.Extract); ok {
				comp = ex.Index
			} else if p, ok := arg.(*ssa.Parameter); ok {
				comp = compOfParam(p)
			}
			if comp <= 0 {
				return
			}
			n++
			// controlling condition
			guard := ""
			for b := call.Block(); b != nil && guard == ""; b = b.Idom() {
				d := b.Idom()
				if d == nil {
					break
				}
				if iff, ok := d.Instrs[len(d.Instrs)-1].(*ssa.If); ok && (d.Succs[0] == b || d.Succs[0].Dominates(b)) {
					if bo, ok := iff.Cond.(*ssa.BinOp); ok && bo.Op == token.NEQ && c.S(bo.Y) == "nil" {
						guard = c.S(bo.X)
					}
				}
			}
			r.Check(strings.HasSuffix(guard, "."+want[comp]), rule, fmt.Sprintf("parts:%s:create#%d", name, comp), w.InstrPos(call)+" "+name,
				"component "+want[comp]+" file is created iff that template is configured", fmt.Sprintf("component file %d (%s) is created under the condition %s != nil", comp, want[comp], guard))
		})
		if n != 3 {
			r.add(rule, "parts:"+name+":floor", "-", fmt.Sprintf("%d conditional component creates found, expected 3", n), Floor)
		}
		// WriteTo argument k derives from the file of component k
		allInstrs(fn, func(in ssa.Instruction) {
			call, ok := in.(*ssa.Call)
			if !ok || !call.Call.IsInvoke() || call.Call.Method.Name() != "WriteTo" || len(call.Call.Args) != 4 {
				return
			}
			for i, a := range call.Call.Args {
				comp := -1
				seen := map[ssa.Value]bool{}
				var rec func(v ssa.Value, d int)
				rec = func(v ssa.Value, d int) {
					if v == nil || seen[v] || d > 10 {
						return
					}
					seen[v] = true
					switch y := v.(type) {
					case *ssa.MakeInterface:
						rec(y.X, d+1)
					case *ssa.ChangeInterface:
						rec(y.X, d+1)
					case *ssa.Phi:
						for _, e := range y.Edges {
							rec(e, d+1)
						}
					case *ssa.Extract:
						if cc, ok := y.Tuple.(*ssa.Call); ok && calleeName(cc.Common()) == "os.Create" {
							if ex, ok := cc.Call.Args[0].(*ssa.Extract); ok {
								comp = ex.Index
							} else if p, ok := cc.Call.Args[0].(*ssa.Parameter); ok {
								comp = compOfParam(p)
							}
						} else {
							rec(y.Tuple, d+1)
						}
					case *ssa.Call:
						for _, x := range y.Call.Args {
							rec(x, d+1)
						}
					}
				}
				rec(a, 0)
				r.Check(comp == i, rule, fmt.Sprintf("parts:%s:writer#%d", name, i), w.InstrPos(call)+" "+name, fmt.Sprintf("WriteTo writer %d compresses into component file %d", i, i), fmt.Sprintf("WriteTo writer %d writes into component file %d", i, comp))
			}
		})
	}
}

// ruleSegmentIDs: C09.ID.
func ruleSegmentIDs(r *Run, rule string, k *storeKind) {
	w := r.W
	r.Doc(rule, "a segment id is reused: a later flush overwrites the files of an earlier segment")
	// who touches segmentCounter
	var initFn, nextFn *ssa.Function
	bad := ""
	for _, fn := range w.Funcs {
		c := NewCanon(w)
		allInstrs(fn, func(in ssa.Instruction) {
			call, ok := in.(*ssa.Call)
			if !ok || len(call.Call.Args) == 0 {
				return
			}
			if c.S(call.Call.Args[0]) != "P0.segmentCounter" {
				// any other access path to the counter
				if strings.HasSuffix(c.S(call.Call.Args[0]), ".segmentCounter") {
					bad = w.InstrPos(in) + " " + w.Name(fn)
				}
				return
			}
			n := calleeName(call.Common())
			switch {
			case strings.HasSuffix(n, "atomic.Uint64).Store"):
				if initFn != nil && initFn != fn {
					bad = w.InstrPos(in) + " " + w.Name(fn)
				}
				initFn = fn
			case strings.HasSuffix(n, "atomic.Uint64).Add"):
				if nextFn != nil && nextFn != fn {
					bad = w.InstrPos(in) + " " + w.Name(fn)
				}
				nextFn = fn
			case strings.HasSuffix(n, "atomic.Uint64).Load"):
			default:
				bad = w.InstrPos(in) + " " + w.Name(fn)
			}
		})
	}
	if initFn == nil || nextFn == nil {
		r.Unres(rule, "ids:counter", "segment counter initialiser / allocator not found")
		return
	}
	r.Analysed(w.Name(initFn), w.Name(nextFn))
	r.Check(bad == "", rule, "ids:who-may", w.Pos(nextFn.Pos())+" "+w.Name(nextFn), "the segment counter is stored only by "+w.Name(initFn)+" and advanced only by "+w.Name(nextFn), "the segment counter is also touched at "+bad)
	// allocator: returns Add(1)
	c := NewCanon(w)
	okNext := false
	for _, ret := range returnsOf(nextFn) {
		if call, ok := ret.Results[0].(*ssa.Call); ok && strings.HasSuffix(calleeName(call.Common()), "atomic.Uint64).Add") && c.S(call.Call.Args[1]) == "c(1)" {
			okNext = true
		}
	}
	r.Check(okNext, rule, "ids:next", w.Pos(nextFn.Pos())+" "+w.Name(nextFn), "next id = atomic Add(1)", "the allocator does not return atomic Add(1)")
	// initialiser: stores the running maximum of base-10 parsed ids over every directory entry, no prefix restriction
	ci := NewCanon(w)
	var store *ssa.Call
	for _, call := range callsTo(initFn, "atomic.Uint64).Store") {
		store = call
	}
	okMax := false
	if store != nil {
		// running maximum through the builtin: m = max(m, parsed id)
		if ph, ok := store.Call.Args[1].(*ssa.Phi); ok {
			for _, e := range ph.Edges {
				if call, ok := e.(*ssa.Call); ok {
					if b, isB := call.Call.Value.(*ssa.Builtin); isB && b.Name() == "max" && len(call.Call.Args) == 2 {
						a0, a1 := call.Call.Args[0], call.Call.Args[1]
						parsed := func(v ssa.Value) bool {
							return phiLeafContains(ci, v, "strconv.ParseUint(", 4) || parsedByHelper(w, v) != nil
						}
						if (a0 == ssa.Value(ph) && parsed(a1)) || (a1 == ssa.Value(ph) && parsed(a0)) {
							okMax = true
						}
					}
				}
			}
		}
		if ph, ok := store.Call.Args[1].(*ssa.Phi); ok {
			// argmax shape: phi of (max, id) controlled by id > max
			allInstrs(initFn, func(in ssa.Instruction) {
				if bo, ok := in.(*ssa.BinOp); ok && (bo.Op == token.GTR || bo.Op == token.LSS) {
					id, cur := bo.X, bo.Y // id > max
					if bo.Op == token.LSS {
						id, cur = bo.Y, bo.X // max < id
					}
					if (phiLeafContains(ci, id, "strconv.ParseUint(", 4) || parsedByHelper(w, id) != nil) && (cur == ssa.Value(ph) || isPhiOf(cur, ph)) {
						okMax = true
					}
				}
			})
		}
	}
	r.Check(okMax, rule, "ids:init:max", w.Pos(initFn.Pos())+" "+w.Name(initFn), "the counter starts at the maximum parsed id", "the counter is not initialised to the maximum id found")
	okBase, restricted, scansDir := false, "", false
	scan := func(fn *ssa.Function) {
		cs := NewCanon(w)
		allInstrs(fn, func(in ssa.Instruction) {
			call, ok := in.(*ssa.Call)
			if !ok {
				return
			}
			switch calleeName(call.Common()) {
			case "strconv.ParseUint":
				if cs.S(call.Call.Args[1]) == "c(10)" {
					okBase = true
				}
			case "strings.HasPrefix":
				if s, ok := constString(call.Call.Args[1]); ok {
					restricted = s
				}
			case "os.ReadDir":
				scansDir = true
			}
		})
	}
	scan(initFn)
	// the file-name parser may be a package function of its own (segmentIDFromFileName)
	allInstrs(initFn, func(in ssa.Instruction) {
		if ex, ok := in.(*ssa.Extract); ok {
			if g := parsedByHelper(w, ex); g != nil {
				scan(g)
				r.Analysed(w.Name(g))
			}
		}
	})
	r.Check(okBase, rule, "ids:init:base10", w.Pos(initFn.Pos())+" "+w.Name(initFn), "zero-padded ids are parsed in base 10", "ids are not parsed in base 10 (000008 / 000009 are not octal)")
	// what is parsed is the id part of the name: the file-name suffix of the segment files is cut off first (otherwise
	// nothing parses and the counter starts at zero over a directory full of segments)
	{
		okSuffix := false
		checkFn := func(fn *ssa.Function) {
			cs := NewCanon(w)
			for _, call := range callsTo(fn, "strconv.ParseUint") {
				if a := cs.S(call.Call.Args[0]); strings.Contains(a, "strings.TrimSuffix(") && strings.Contains(a, `c(".bin.gz")`) {
					okSuffix = true
				}
				// or a fixed-width cut of the digits
				if _, isSlice := call.Call.Args[0].(*ssa.Slice); isSlice {
					okSuffix = true
				}
			}
		}
		checkFn(initFn)
		allInstrs(initFn, func(in ssa.Instruction) {
			if ex, ok := in.(*ssa.Extract); ok {
				if g := parsedByHelper(w, ex); g != nil {
					checkFn(g)
				}
			}
		})
		r.Check(okSuffix, rule, "ids:init:suffix", w.Pos(initFn.Pos())+" "+w.Name(initFn), "the \".bin.gz\" suffix is removed from the name before the id is parsed", "the id is parsed from a string that still carries the file suffix: no existing segment is recognised and ids start again at 1")
	}
	// every directory entry is looked at: no iteration ends the scan
	initLoops := loopsOf(initFn)
	for _, l := range initLoops {
		early := ""
		paths, _ := enumPaths(l.Header, walkCfg{Stop: func(b *ssa.BasicBlock) bool { return b == l.Header || !l.Blocks[b] }, MaxVisits: 2, MaxPaths: 4000})
		for _, pth := range paths {
			if pth.End == EndCycle || !pth.Feasible() {
				continue
			}
			if pth.End == EndStop && len(pth.Blocks) == 2 && !l.Blocks[pth.Blocks[1]] {
				continue
			}
			if pth.End == EndStop && !l.Blocks[pth.Blocks[len(pth.Blocks)-1]] {
				last := pth.Blocks[len(pth.Blocks)-2]
				early = w.InstrPos(last.Instrs[len(last.Instrs)-1])
			}
		}
		isOuter := true
		for _, l2 := range initLoops {
			if l2 != l && l2.Blocks[l.Header] {
				isOuter = false
			}
		}
		if isOuter {
			r.Check(early == "", rule, "ids:init:scan-complete", w.Pos(initFn.Pos())+" "+w.Name(initFn), "the scan of the directory looks at every entry", "an iteration of the directory scan leaves the loop at "+early+": ids of the entries after it are not reserved")
		}
	}
	r.Check(scansDir && restricted == "", rule, "ids:init:all-files", w.Pos(initFn.Pos())+" "+w.Name(initFn), "every segment-like file name of the directory counts (partial segments keep their id reserved)", "the id scan is restricted (prefix "+restricted+", own directory scan="+fmt.Sprint(scansDir)+"): ids of partial segments can be reused")
	// the provider constructor initialises the counter on every success path
	if ctor := w.Fn("newStorageProvider"); ctor != nil {
		esc := successEscapesWrap(ctor, func(in ssa.Instruction) bool {
			call, ok := in.(*ssa.Call)
			return ok && staticCallee(call.Common()) == initFn
		})
		r.Check(esc == nil, rule, "ids:init:called", w.Pos(ctor.Pos())+" newStorageProvider", "the counter is initialised from the directory before the provider is handed out", "the provider can be created without initialising the counter")
	}
	// every created path derives from segmentPaths(nextSegmentID())
	for _, fn := range []*ssa.Function{k.FlushOne, k.Compact} {
		cc := NewCanon(w)
		okPaths := false
		allInstrs(fn, func(in ssa.Instruction) {
			if call, ok := in.(*ssa.Call); ok && strings.HasSuffix(calleeName(call.Common()), ".segmentPaths") {
				if strings.Contains(cc.S(call.Call.Args[1]), w.Name(nextFn)+"(") {
					okPaths = true
				}
			}
		})
		r.Check(okPaths, rule, "ids:fresh-paths:"+w.Name(fn), w.Pos(fn.Pos())+" "+w.Name(fn), "new files are named after a freshly allocated id", "new segment paths do not derive from a freshly allocated id")
	}
}

func isPhiOf(v ssa.Value, ph *ssa.Phi) bool {
	p, ok := v.(*ssa.Phi)
	if !ok {
		return false
	}
	for _, e := range ph.Edges {
		if e == ssa.Value(p) {
			return true
		}
	}
	for _, e := range p.Edges {
		if e == ssa.Value(ph) {
			return true
		}
	}
	return false
}

// ruleOpenIsLazy: C10.OPEN.
func ruleOpenIsLazy(r *Run, rule string, k *storeKind) {
	w := r.W
	fn := k.Open
	r.Doc(rule, "a partial segment left by a crash makes the directory fail to reopen")
	r.Analysed(w.Name(fn))
	// no decoding reachable
	parent, order := reachableComet(w, []*ssa.Function{fn})
	bad := 0
	for _, g := range order {
		// goroutine bodies started by Open run later; they are not part of opening
		if g == k.Worker || strings.HasSuffix(w.Name(g), "compactionWorker") {
			continue
		}
		if parent[g] == k.Worker || strings.HasSuffix(w.Name(parent[g]), "compactionWorker") {
			continue
		}
		onWorkerPath := false
		for p := g; p != nil; p = parent[p] {
			if p == k.Worker || strings.HasSuffix(w.Name(p), "compactionWorker") {
				onWorkerPath = true
			}
		}
		if onWorkerPath {
			continue
		}
		if g == k.GetIndex || g.Name() == "ReadFrom" {
			bad++
			r.Bad(rule, "open:decodes:"+w.Name(g), w.Pos(g.Pos())+" "+w.Name(g), "opening the store decodes segment data: "+callPath(w, parent, g))
		}
		allInstrs(g, func(in ssa.Instruction) {
			if call, ok := in.(*ssa.Call); ok {
				switch calleeName(call.Common()) {
				case "compress/gzip.NewReader", "os.Open":
					bad++
					r.Bad(rule, "open:reads:"+w.Name(g), w.InstrPos(in)+" "+w.Name(g), "opening the store reads segment files: "+callPath(w, parent, g))
				}
			}
		})
	}
	if bad == 0 {
		r.Ok(rule, "open:lazy", w.Pos(fn.Pos())+" "+w.Name(fn), fmt.Sprintf("%d functions reachable from Open (excluding the worker goroutines): none decodes or reads segment files", len(order)))
	}
	// error returns come only from: nil config, provider creation, segment listing
	allowed := map[string]bool{"newStorageProvider": true, "listSegments": true}
	for i, ret := range returnsOf(fn) {
		if classifyErr(ret) != ErrNonNil {
			continue
		}
		v := resultValue(ret, errIndex(fn))
		src := "constant message"
		ok := true
		// origin of the returned error, through wrapping (fmt.Errorf … %w) and joins (phis): every leaf is a message
		// built on the spot, or the error of provider creation / directory listing / a check that touches no file
		var origin func(val ssa.Value, depth int) bool
		origin = func(val ssa.Value, depth int) bool {
			for {
				if mi, isMI := val.(*ssa.MakeInterface); isMI {
					val = mi.X
					continue
				}
				if ch, isCh := val.(*ssa.ChangeInterface); isCh {
					val = ch.X
					continue
				}
				break
			}
			if depth > 6 {
				src = "an error of unknown origin"
				return false
			}
			switch x := val.(type) {
			case *ssa.Const:
				return true
			case *ssa.UnOp:
				// a sentinel: package-level error variable initialised once with errors.New / fmt.Errorf
				if g, isG := x.X.(*ssa.Global); isG && x.Op == token.MUL && isSentinelError(w, g) {
					src = "sentinel " + g.Name()
					return true
				}
			case *ssa.Phi:
				for _, e := range x.Edges {
					if e != val && !origin(e, depth+1) {
						return false
					}
				}
				return true
			case *ssa.Extract:
				if c2, isC := x.Tuple.(*ssa.Call); isC {
					return origin(c2, depth+1)
				}
			case *ssa.Call:
				switch calleeName(x.Common()) {
				case "errors.New":
					return true
				case "fmt.Errorf":
					if len(x.Call.Args) < 2 {
						return true
					}
					if sl, isSl := x.Call.Args[1].(*ssa.Slice); isSl {
						if arr, isArr := sl.X.(*ssa.Alloc); isArr {
							for _, ref := range *arr.Referrers() {
								if ia, isIA := ref.(*ssa.IndexAddr); isIA {
									for _, rr := range *ia.Referrers() {
										if st, isSt := rr.(*ssa.Store); isSt {
											a := st.Val
											for {
												if mi, isMI := a.(*ssa.MakeInterface); isMI {
													a = mi.X
													continue
												}
												if ch, isCh := a.(*ssa.ChangeInterface); isCh {
													a = ch.X
													continue
												}
												break
											}
											if types.Identical(a.Type(), errorType) && !origin(a, depth+1) {
												return false
											}
										}
									}
								}
							}
						}
					}
					return true
				}
				g := staticCallee(x.Common())
				if g != nil && (allowed[fnShortName(g)] || (g.Pkg == w.SPkg && !touchesFiles(w, g, 3, map[*ssa.Function]bool{}))) {
					src = "error of " + shortCallee(x.Common())
					return true
				}
				src = "error of " + shortCallee(x.Common())
				return false
			}
			src = "an error of unknown origin"
			return false
		}
		ok = origin(v, 0)
		r.Check(ok, rule, fmt.Sprintf("open:error#%d", i), w.InstrPos(ret)+" "+w.Name(fn), "Open fails only for: "+src, "Open can fail because of "+src+" — a per-segment step must not make the directory unopenable")
	}
	// no error return inside the per-segment loop
	for _, l := range loopsOf(fn) {
		for _, ret := range returnsOf(fn) {
			if classifyErr(ret) == ErrNil {
				continue
			}
			inLoop := false
			for b := range l.Blocks {
				if b != l.Header && b.Dominates(ret.Block()) {
					inLoop = true
				}
			}
			if inLoop {
				r.Bad(rule, "open:error-in-loop", w.InstrPos(ret)+" "+w.Name(fn), "Open returns an error from inside the per-segment loop: one damaged / partial segment makes the whole directory unopenable")
			}
		}
	}
}

// ruleSegmentLoad: C10.SKIP + C10.WHOLE (+ the trailer drain of C16).
func ruleSegmentLoad(r *Run, p string, k *storeKind) {
	w := r.W
	r.Doc(p+".SKIP", "a damaged segment makes every search fail")
	r.Doc(p+".WHOLE", "a partially decoded / truncated segment is cached and answers searches")
	// SKIP: in the per-segment goroutine of Execute, a getIndex / search error ends the goroutine without reporting
	seg := segmentSearchFn(w, k)
	if seg == nil {
		r.Unres(p+".SKIP", "skip:closure", "per-segment search closure not found")
	} else {
		r.Analysed(w.Name(seg))
		gi := callsIn(seg, func(cc *ssa.CallCommon) bool { return staticCallee(cc) == k.GetIndex })[0].(*ssa.Call)
		// from the error branch of getIndex nothing is sent / stored before the return
		var errSucc *ssa.BasicBlock
		for _, ref := range *gi.Referrers() {
			if ex, ok := ref.(*ssa.Extract); ok && ex.Index == 1 {
				for _, r2 := range *ex.Referrers() {
					if bo, ok := r2.(*ssa.BinOp); ok {
						for _, r3 := range *bo.Referrers() {
							if iff, ok := r3.(*ssa.If); ok {
								errSucc = iff.Block().Succs[0]
								if bo.Op == token.EQL {
									errSucc = iff.Block().Succs[1]
								}
							}
						}
					}
				}
			}
		}
		ok := errSucc != nil
		if ok {
			esc := reachAvoidAt(errSucc, 0, func(in ssa.Instruction) bool {
				switch x := in.(type) {
				case *ssa.Send:
					// telling the collector why the segment is skipped is harmless as long as the message carries no hits and
					// the collector never turns it into a failure of the search
					return !harmlessOutcomeSend(w, x)
				case *ssa.Store:
					return !isLocalCell(x.Addr)
				case *ssa.Panic:
					return true
				}
				return false
			}, func(in ssa.Instruction) bool { _, isRet := in.(*ssa.Return); return isRet })
			ok = esc == nil
			if !ok {
				// the failure may be carried in a flag to a single exit (`if ok { send }`): decided per path
				paths, trunc := enumPaths(errSucc, walkCfg{MaxVisits: 1, MaxPaths: 2000 * pathScale, Decide: decideOnPath})
				if !trunc && len(paths) > 0 {
					ok = true
					for _, pth := range paths {
						if !pth.Feasible() {
							continue
						}
						for _, in := range pth.Instrs() {
							switch x := in.(type) {
							case *ssa.Send:
								if !harmlessOutcomeSend(w, x) {
									ok = false
								}
							case *ssa.Store:
								if !isLocalCell(x.Addr) {
									ok = false
								}
							case *ssa.Panic:
								ok = false
							}
						}
					}
				}
			}
		}
		// every segment is searched: the spawning loop over the segment list is entered whenever the list is non-empty
		{
			var spawn ssa.Instruction
			allInstrs(k.Execute, func(in ssa.Instruction) {
				if g, isGo := in.(*ssa.Go); isGo {
					if staticCallee(g.Common()) == seg {
						spawn = in
					}
					if mc, isMC := g.Call.Value.(*ssa.MakeClosure); isMC && mc.Fn == ssa.Value(seg) {
						spawn = in
					}
				}
			})
			if spawn != nil {
				ce := NewCanon(w)
				paths, trunc := enumPaths(k.Execute.Blocks[0], walkCfg{MaxVisits: 1, MaxPaths: 20000 * pathScale, Decide: decideOnPath,
					Stop: func(b *ssa.BasicBlock) bool { return b == spawn.Block() }})
				badGuard := ""
				reached := 0
				if !trunc {
					for _, pth := range paths {
						if pth.End != EndStop || !pth.Feasible() {
							continue
						}
						reached++
						for _, d := range pth.Decisions {
							cs := ce.S(d.Cond)
							if !strings.Contains(cs, "segmentManager).list(") || !strings.Contains(cs, "len(") {
								continue
							}
							if bo, isRange := d.Cond.(*ssa.BinOp); isRange && isAllIndex(bo.X) && bo.Op == token.LSS {
								continue // the loop's own bound test (range, or a counter from 0 to len)
							}
							x, nonEmpty, okE := nonEmptyCmp(ce, d.Cond)
							if !okE || !strings.Contains(x, "segmentManager).list(") {
								badGuard = "the segment loop is guarded by " + cs + ", which is not a plain emptiness test of the segment list"
							} else if d.Taken != nonEmpty {
								badGuard = "the segment loop is entered on the side of " + cs + " where the segment list is empty: segments on disk are never searched"
							}
						}
					}
				}
				r.Check(!trunc && reached > 0 && badGuard == "", p+".SKIP", "skip:all-segments", w.InstrPos(spawn)+" "+w.Name(k.Execute), "every listed segment gets its search (the spawning loop is entered whenever segments exist)", badGuard)
			}
		}
		// the other half: a segment that loads and searches contributes its hits — on every path through the routine on
		// which both the load and the search were found error-free, the search's results are sent
		{
			var exec *ssa.Call
			for _, ex := range invokesOf(seg, "Execute") {
				exec = ex
			}
			var send *ssa.Send
			allInstrs(seg, func(in ssa.Instruction) {
				if sd, isSend := in.(*ssa.Send); isSend {
					if ex, isEx := sd.X.(*ssa.Extract); isEx && exec != nil && ex.Tuple == ssa.Value(exec) && ex.Index == 0 {
						send = sd
					}
					if lf, okL := litFields(sd.X); okL && exec != nil {
						for _, fv := range lf {
							if ex, isEx := fv.(*ssa.Extract); isEx && ex.Tuple == ssa.Value(exec) && ex.Index == 0 {
								send = sd
							}
						}
					}
				}
			})
			if exec != nil && send != nil {
				paths, trunc := enumPaths(seg.Blocks[0], walkCfg{MaxVisits: 1, MaxPaths: 8000 * pathScale, Decide: decideOnPath})
				lost, wrong := "", ""
				if !trunc {
					for _, pth := range paths {
						if pth.End != EndReturn || !pth.Feasible() || !pth.Has(exec) {
							continue
						}
						loadOK, searchOK := errNilDecidedOnPath(pth, gi, 1), errNilDecidedOnPath(pth, exec, 1)
						if loadOK && searchOK && !pth.Has(send) {
							lost = "a path on which the segment loaded and its search succeeded ends without sending the hits"
						}
						if pth.Has(send) && !(loadOK && searchOK) {
							wrong = "hits are sent on a path that did not establish that load and search succeeded"
						}
					}
				}
				r.Check(!trunc && lost == "" && wrong == "", p+".SKIP", "skip:sends-on-success", w.InstrPos(send)+" "+w.Name(seg), "the hits of a segment are sent exactly when its load and its search succeeded", lost+wrong)
			}
		}
		r.Check(ok, p+".SKIP", "skip:load-error", w.InstrPos(gi)+" "+w.Name(seg), "a segment that fails to load contributes nothing and does not fail the search", "a segment load error is reported / stored instead of skipping the segment")
		r.Check(seg.Signature.Results().Len() == 0, p+".SKIP", "skip:no-result", w.Pos(seg.Pos())+" "+w.Name(seg), "the per-segment goroutine has no error result", "the per-segment goroutine returns a value")
	}
	// WHOLE
	fn := k.GetIndex
	name := w.Name(fn)
	r.Analysed(name)
	c := NewCanon(w)
	var rf, drain *ssa.Call
	allInstrs(fn, func(in ssa.Instruction) {
		if call, ok := in.(*ssa.Call); ok {
			if call.Call.IsInvoke() && call.Call.Method.Name() == "ReadFrom" {
				rf = call
			}
			switch calleeName(call.Common()) {
			case "io.Copy", "io.ReadAll", "io.CopyN":
				drain = call
			}
		}
	})
	site := w.Pos(fn.Pos()) + " " + name
	var stores []*ssa.Store
	allInstrs(fn, func(in ssa.Instruction) {
		if st, ok := in.(*ssa.Store); ok && c.S(st.Addr) == "P0.cachedIndex" {
			stores = append(stores, st)
		}
	})
	if rf == nil || len(stores) == 0 {
		r.Bad(p+".WHOLE", "whole:shape", site, "segment load does not decode-then-cache")
		return
	}
	succOf := func(call *ssa.Call, errExtract int) *ssa.BasicBlock {
		for _, ref := range *call.Referrers() {
			ex, ok := ref.(*ssa.Extract)
			if !ok || ex.Index != errExtract {
				continue
			}
			for _, r2 := range *ex.Referrers() {
				if bo, ok := r2.(*ssa.BinOp); ok {
					for _, r3 := range *bo.Referrers() {
						if iff, ok := r3.(*ssa.If); ok {
							if bo.Op == token.NEQ {
								return iff.Block().Succs[1]
							}
							return iff.Block().Succs[0]
						}
					}
				}
			}
		}
		return nil
	}
	rfOK := succOf(rf, 1)
	// when failures travel through a variable to one test (`if err := decode(); err != nil` once decode is inlined) the
	// dominance form below does not apply: the same three facts are then decided on every path that reaches the store
	pathFacts := func(st *ssa.Store) (decoded, drained bool) {
		paths, trunc := enumPaths(fn.Blocks[0], walkCfg{MaxVisits: 1, MaxPaths: 20000 * pathScale, Decide: decideOnPath,
			Stop: func(b *ssa.BasicBlock) bool { return b == st.Block() }})
		if trunc {
			return false, false
		}
		decoded, drained = true, true
		n := 0
		for _, pth := range paths {
			if pth.End != EndStop || !pth.Feasible() {
				continue
			}
			n++
			if !pth.Has(rf) || !errNilDecidedOnPath(pth, rf, 1) {
				decoded = false
			}
			if drain == nil || !pth.Has(drain) || !errNilDecidedOnPath(pth, drain, 1) || !orderedOnPath(pth, rf, drain) {
				drained = false
			}
		}
		if n == 0 {
			return false, false
		}
		return decoded, drained
	}
	for i, st := range stores {
		ok := rfOK != nil && (rfOK == st.Block() || rfOK.Dominates(st.Block()))
		pDecoded, pDrained := false, false
		if !ok {
			pDecoded, pDrained = pathFacts(st)
			ok = pDecoded
		}
		r.Check(ok, p+".WHOLE", fmt.Sprintf("whole:cache-after-decode#%d", i), w.InstrPos(st)+" "+name, "the index is cached only after the single ReadFrom over all components succeeded", "the index is cached before / regardless of the success of decoding")
		okDrain := false
		if drain != nil {
			if ds := succOf(drain, 1); ds != nil && (ds == st.Block() || ds.Dominates(st.Block())) && domInstr(rf, drain) {
				okDrain = true
			}
		}
		if !okDrain {
			if !pDecoded {
				_, pDrained = pathFacts(st)
			}
			okDrain = pDrained
		}
		r.Check(okDrain, p+".WHOLE", fmt.Sprintf("whole:verify-to-eof#%d", i), w.InstrPos(st)+" "+name, "the concatenated stream is read to EOF with the error checked before caching (gzip verifies the last component's trailer; trailing bytes are rejected)", "the stream is not drained to EOF before the index is cached: the last component's gzip trailer is never verified")
		// the cached value is the freshly decoded index
		cachedOK, cachedIs := strings.Contains(c.S(st.Val), "NewHybridSearchIndex("), c.S(st.Val)
		if _, isPhi := st.Val.(*ssa.Phi); isPhi && !cachedOK {
			// the result variable of a loading phase: on every way to the store it holds the index just built
			paths, trunc := enumPaths(fn.Blocks[0], walkCfg{MaxVisits: 1, MaxPaths: 20000 * pathScale, Decide: decideOnPath,
				Stop: func(b *ssa.BasicBlock) bool { return b == st.Block() }})
			n := 0
			cachedOK = !trunc
			for _, pth := range paths {
				if pth.End != EndStop || !pth.Feasible() {
					continue
				}
				n++
				if v := c.S(resolveOnPath(pth, st.Val)); !strings.Contains(v, "NewHybridSearchIndex(") {
					cachedOK, cachedIs = false, v
				}
			}
			if n == 0 {
				cachedOK = false
			}
		}
		r.Check(cachedOK, p+".WHOLE", fmt.Sprintf("whole:cached-value#%d", i), w.InstrPos(st)+" "+name, "the cached index is the one just decoded", "cached value is "+cachedIs)
	}
	// every failing step returns a non-nil error: each `err != nil` true branch ends in an error return
	badFall := ""
	allInstrs(fn, func(in ssa.Instruction) {
		iff, ok := in.(*ssa.If)
		if !ok {
			return
		}
		bo, ok := iff.Cond.(*ssa.BinOp)
		if !ok || bo.Op != token.NEQ || c.S(bo.Y) != "nil" || !types.Identical(bo.X.Type(), errorType) {
			return
		}
		t := iff.Block().Succs[0]
		if ret, ok := t.Instrs[len(t.Instrs)-1].(*ssa.Return); !ok || classifyErr(ret) != ErrNonNil {
			// the failure may be handed to a single exit through a variable: every path from here ends in a failing return
			// without caching anything
			paths, trunc := enumPaths(t, walkCfg{MaxVisits: 1, MaxPaths: 4000 * pathScale, Decide: decideOnPath})
			good, n := !trunc, 0
			for _, pth := range paths {
				if !good {
					break
				}
				if !pth.Feasible() {
					continue
				}
				n++
				if pth.End != EndReturn || pathErrClass(pth) != ErrNonNil {
					good = false
				}
				for _, st := range stores {
					if pth.Has(st) {
						good = false
					}
				}
			}
			if !good || n == 0 {
				badFall = w.InstrPos(iff)
			}
		}
	})
	r.Check(badFall == "", p+".WHOLE", "whole:errors-returned", site, "every failing open / decode step returns a non-nil error at once", "the error tested at "+badFall+" does not lead to an immediate error return")
	// the drain's byte count is checked too
	if drain != nil {
		okN := false
		for _, ref := range *drain.Referrers() {
			if ex, ok := ref.(*ssa.Extract); ok && ex.Index == 0 && len(*ex.Referrers()) > 0 {
				okN = true
			}
		}
		r.Check(okN, p+".WHOLE", "whole:no-trailing-bytes", w.InstrPos(drain)+" "+name, "bytes left after decoding are rejected", "trailing bytes after the decoded index are ignored")
	}
}

var fsMutators = map[string]bool{"os.Create": true, "os.Remove": true, "os.RemoveAll": true, "os.Rename": true, "os.WriteFile": true, "os.Truncate": true,
	"os.OpenFile": true, "os.Mkdir": true, "os.MkdirAll": true, "os.Symlink": true, "os.Link": true, "os.Chmod": true}

// ruleWhoMayWriteFiles: C10.OLD.
func ruleWhoMayWriteFiles(r *Run, rule string, k *storeKind) {
	w := r.W
	r.Doc(rule, "files of completed segments are created over / removed outside the flush, compaction and lock protocols")
	allow := map[string]bool{w.Name(k.FlushOne): true, w.Name(k.WriteSeg): true, "(*storageProvider).deleteSegment": true,
		"(*storageProvider).acquireLock": true, "(*storageProvider).releaseLock": true, "newStorageProvider": true}
	n := 0
	for _, fn := range w.Funcs {
		allInstrs(fn, func(in ssa.Instruction) {
			call, ok := in.(ssa.CallInstruction)
			if !ok {
				return
			}
			cn := calleeName(call.Common())
			if !fsMutators[cn] {
				return
			}
			n++
			name := w.Name(fn)
			// closures (deferred cleanups) belong to the function that contains them
			top := fn
			for top.Parent() != nil {
				top = top.Parent()
			}
			okFn := allow[name] || allow[w.Name(top)]
			if name == "newStorageProvider" && cn != "os.MkdirAll" {
				okFn = false
			}
			r.Check(okFn, rule, fmt.Sprintf("who-may:%s:%s", name, cn), w.InstrPos(in)+" "+name, cn+" in an allowed function", cn+" is called from "+name+", outside the flush / compaction / lock protocol")
		})
	}
	if n < 8 {
		r.add(rule, "who-may:floor", "-", fmt.Sprintf("%d file-system mutation sites found, floor is 8", n), Floor)
	}
	// deleteSegment is only called by compaction
	for _, fn := range w.Funcs {
		for _, call := range callsTo(fn, ".deleteSegment") {
			okWho := fn == k.Compact
			if !okWho {
				// a phase of compaction extracted into its own method: every caller is the compaction routine
				n, other := 0, 0
				for _, g := range w.Funcs {
					for range callsIn(g, func(cc *ssa.CallCommon) bool { return staticCallee(cc) == fn }) {
						if g == k.Compact {
							n++
						} else {
							other++
						}
					}
				}
				okWho = n > 0 && other == 0 && !addressTaken(w, fn)
			}
			r.Check(okWho, rule, "who-may:deleteSegment:"+w.Name(fn), w.InstrPos(call)+" "+w.Name(fn), "segments are deleted only by compaction", "deleteSegment is called from "+w.Name(fn))
		}
	}
	// cleanup after a failed write removes only the files just created (paths of the fresh id)
	for _, fn := range []*ssa.Function{k.FlushOne, k.WriteSeg} {
		c := NewCanon(w)
		okRm := true
		for _, call := range callsTo(fn, "os.Remove") {
			arg := call.Call.Args[0]
			fresh := func(v ssa.Value) bool {
				_, isParam := v.(*ssa.Parameter)
				return isParam || strings.Contains(c.S(v), "segmentPaths(")
			}
			okArg := fresh(arg)
			if ld, ok := arg.(*ssa.UnOp); ok && !okArg && ld.Op == token.MUL {
				// an element of a local list of the paths created so far
				if ia, ok := ld.X.(*ssa.IndexAddr); ok {
					elems, okE := sliceElems(ia.X)
					if os.Getenv("COMETLINT_DEBUG") != "" {
						fmt.Fprintf(os.Stderr, "cleanup: list %s elems=%d ok=%v\n", c.S(ia.X), len(elems), okE)
					}
					if okE && len(elems) > 0 {
						okArg = true
						for _, e := range elems {
							if !fresh(e) {
								okArg = false
							}
						}
					}
				}
			}
			if !okArg {
				// a column of a literal table of the segment's files: every row's path is one of the fresh paths
				if col := tableColumn(arg); len(col) > 0 {
					okArg = true
					for _, e := range col {
						if !fresh(e) {
							okArg = false
						}
					}
				}
			}
			if !okArg {
				okRm = false
			}
		}
		r.Check(okRm, rule, "who-may:cleanup:"+w.Name(fn), w.Pos(fn.Pos())+" "+w.Name(fn), "cleanup removes only the partial files of the segment being written", "cleanup removes other paths")
	}
}

// ---------------------------------------------------------------- C17

func ruleOwnership(r *Run, p string, k *storeKind) {
	w := r.W
	r.Doc(p+".EXCL", "two opens can both become owner of the directory")
	r.Doc(p+".RELEASE", "a failed open leaves the lock behind / Close does not release it, or releases it while the old owner still writes")
	r.Doc(p+".NOMOD", "a refused open modifies the directory")
	r.Doc(p+".CLOSED", "operations on a closed handle touch the directory; a second Close has effects")
	acq, rel, ctor := w.Fn("(*storageProvider).acquireLock"), w.Fn("(*storageProvider).releaseLock"), w.Fn("newStorageProvider")
	if acq == nil || rel == nil || ctor == nil {
		// role discovery: the function calling os.OpenFile with O_EXCL
		r.Unres(p+".EXCL", "lock:functions", "acquireLock / releaseLock / newStorageProvider not found")
		return
	}
	r.Analysed(w.Name(acq), w.Name(rel), w.Name(ctor))
	osPkg := (*types.Package)(nil)
	for _, imp := range w.Types.Imports() {
		if imp.Path() == "os" {
			osPkg = imp
		}
	}
	flagOf := func(n string) int64 {
		if osPkg == nil {
			return 0
		}
		if c, ok := osPkg.Scope().Lookup(n).(*types.Const); ok {
			v, _ := constant.Int64Val(c.Val())
			return v
		}
		return 0
	}
	excl, creat := flagOf("O_EXCL"), flagOf("O_CREATE")
	var open *ssa.Call
	for _, call := range callsTo(acq, "os.OpenFile") {
		open = call
	}
	if open == nil {
		r.Bad(p+".EXCL", "lock:open", w.Pos(acq.Pos())+" "+w.Name(acq), "the lock is not taken with os.OpenFile")
	} else {
		fl, ok := open.Call.Args[1].(*ssa.Const)
		v := int64(0)
		if ok && fl.Value != nil {
			v, _ = constant.Int64Val(fl.Value)
		}
		r.Check(ok && excl != 0 && v&excl != 0 && v&creat != 0, p+".EXCL", "lock:flags", w.InstrPos(open)+" "+w.Name(acq), fmt.Sprintf("lock file opened with O_CREATE|O_EXCL (flags %#x)", v), fmt.Sprintf("lock file flags %#x lack O_CREATE|O_EXCL: acquisition is not atomic", v))
		// the acquisition never removes a lock file this call did not create: every os.Remove in it lies on the success side
		// of an exclusive create (cleanup after a failed write of the owner record). Removing the file on the "already
		// exists" side — however stale the lock looks — lets two openers own the directory
		// the handle of the lock file is kept on every successful acquisition: the release closes and removes the lock only
		// when it finds the handle
		{
			cl := NewCanon(w)
			var keep *ssa.Store
			allInstrs(acq, func(in ssa.Instruction) {
				if st, okS := in.(*ssa.Store); okS && cl.S(st.Addr) == "P0.lockFile" {
					if ex, okE := st.Val.(*ssa.Extract); okE && ex.Tuple == ssa.Value(open) && ex.Index == 0 {
						keep = st
					}
				}
			})
			if keep == nil {
				r.Bad(p+".RELEASE", "lock:handle-kept", w.Pos(acq.Pos())+" "+w.Name(acq), "a successful acquisition does not keep the lock file's handle: the release finds nothing to release and the directory stays locked after Close")
			} else {
				esc := successEscapesWrap(acq, func(in ssa.Instruction) bool { return in == ssa.Instruction(keep) })
				r.Check(esc == nil, p+".RELEASE", "lock:handle-kept", w.InstrPos(keep)+" "+w.Name(acq), "every successful acquisition records the lock file's handle for the release", "a successful acquisition can return without recording the lock file's handle")
			}
		}
		for _, rm := range callsTo(acq, "os.Remove") {
			own := false
			for _, op := range callsTo(acq, "os.OpenFile") {
				for _, ref := range *op.Referrers() {
					ex, ok := ref.(*ssa.Extract)
					if !ok || ex.Index != 1 {
						continue
					}
					for _, r2 := range *ex.Referrers() {
						bo, ok := r2.(*ssa.BinOp)
						if !ok || (bo.Op != token.NEQ && bo.Op != token.EQL) {
							continue
						}
						for _, r3 := range *bo.Referrers() {
							iff, ok := r3.(*ssa.If)
							if !ok {
								continue
							}
							succ := iff.Block().Succs[1] // err == nil side of `err != nil`
							if bo.Op == token.EQL {
								succ = iff.Block().Succs[0]
							}
							if succ == rm.Block() || succ.Dominates(rm.Block()) {
								own = true
							}
						}
					}
				}
			}
			_ = own
			r.Check(own, p+".EXCL", "lock:removes-only-own", w.InstrPos(rm)+" "+w.Name(acq), "the lock file is removed only after this call created it", "the acquisition removes a lock file it did not create (takeover): the previous owner may still be alive, or just about to write its record")
		}
		c := NewCanon(w)
		r.Check(strings.Contains(c.S(open.Call.Args[0]), "P0.baseDir"), p+".EXCL", "lock:path", w.InstrPos(open)+" "+w.Name(acq), "the lock file lives in the store directory", "lock path is "+c.S(open.Call.Args[0]))
		// no read-then-create: nothing opens / stats the lock path before
		pre := false
		allInstrs(acq, func(in ssa.Instruction) {
			if call, ok := in.(*ssa.Call); ok && domInstr(in, open) {
				switch calleeName(call.Common()) {
				case "os.Stat", "os.ReadFile", "os.Open", "os.Lstat":
					pre = true
				}
			}
		})
		r.Check(!pre, p+".EXCL", "lock:no-check-then-create", w.Pos(acq.Pos())+" "+w.Name(acq), "no check-then-create before the exclusive open", "the lock file is inspected before it is created (check-then-act)")
		// success path records the file so that release works
		isRec := func(in ssa.Instruction) bool {
			st, ok := in.(*ssa.Store)
			return ok && c.S(st.Addr) == "P0.lockFile" && c.S(st.Val) != "nil"
		}
		esc := successEscapesWrap(acq, isRec)
		r.Check(esc == nil, p+".RELEASE", "lock:recorded", w.Pos(acq.Pos())+" "+w.Name(acq), "a successful acquisition records the lock file in the provider (release depends on it)", "acquisition can succeed without recording the lock file: a later release is a no-op")
		// failure after creation removes the file
		for _, ret := range returnsOf(acq) {
			if classifyErr(ret) == ErrNonNil && domInstr(open, ret) {
				// error returns after a *successful* open must remove the file
				succ := false
				for _, ref := range *open.Referrers() {
					if ex, ok := ref.(*ssa.Extract); ok && ex.Index == 1 {
						for _, r2 := range *ex.Referrers() {
							if bo, ok := r2.(*ssa.BinOp); ok {
								for _, r3 := range *bo.Referrers() {
									if iff, ok := r3.(*ssa.If); ok && bo.Op == token.NEQ && iff.Block().Succs[1].Dominates(ret.Block()) {
										succ = true
									}
								}
							}
						}
					}
				}
				if succ {
					rm := false
					for _, call := range callsTo(acq, "os.Remove") {
						if domInstr(call, ret) {
							rm = true
						}
					}
					r.Check(rm, p+".RELEASE", "lock:acquire-failure-cleans", w.InstrPos(ret)+" "+w.Name(acq), "a failure after the lock file was created removes it", "a failure after creating the lock file leaves it behind")
				}
			}
		}
	}
	// releaseLock removes the file
	{
		c := NewCanon(w)
		rm := false
		for _, call := range callsTo(rel, "os.Remove") {
			if strings.Contains(c.S(call.Call.Args[0]), "P0.baseDir") {
				rm = true
			}
		}
		r.Check(rm, p+".RELEASE", "lock:release-removes", w.Pos(rel.Pos())+" "+w.Name(rel), "release removes the lock file", "release does not remove the lock file")
		// the unlink's failure is reported unless the file is already gone: error ⇔ err ≠ nil ∧ ¬IsNotExist(err)
		for _, call := range callsTo(rel, "os.Remove") {
			rows, trunc := regionPaths(call.Block(), func(b *ssa.BasicBlock) bool { return false }, func(cond ssa.Value) (string, bool) {
				if bo, ok := cond.(*ssa.BinOp); ok && (bo.Op == token.NEQ || bo.Op == token.EQL) {
					isNil := func(y ssa.Value) bool { k, ok := y.(*ssa.Const); return ok && k.Value == nil }
					if (bo.X == ssa.Value(call) && isNil(bo.Y)) || (bo.Y == ssa.Value(call) && isNil(bo.X)) {
						return "ERR", bo.Op == token.EQL
					}
				}
				if c2, ok := cond.(*ssa.Call); ok && (calleeName(c2.Common()) == "os.IsNotExist" || calleeName(c2.Common()) == "errors.Is") {
					return "GONE", false
				}
				return "", false
			}, 1)
			if trunc || len(rows) == 0 {
				r.Und(p+".RELEASE", "lock:release-error-table", w.InstrPos(call)+" "+w.Name(rel), "paths after the unlink could not be enumerated")
				continue
			}
			bad, states := tableCheck([]string{"ERR", "GONE"}, rows, func(pr pathRow) string {
				if pr.P.End == EndReturn && pathErrClass(pr.P) == ErrNonNil {
					return "error"
				}
				return "ok"
			}, func(a map[string]bool) string {
				if !a["ERR"] && a["GONE"] {
					return "-"
				}
				if a["ERR"] && !a["GONE"] {
					return "error"
				}
				return "ok"
			})
			if len(bad) > 0 {
				r.Bad(p+".RELEASE", "lock:release-error-table", w.InstrPos(call)+" "+w.Name(rel), truncList(bad, 3)+" — a failed unlink is swallowed: Close reports success while LOCK stays on disk")
			} else {
				r.Ok(p+".RELEASE", "lock:release-error-table", w.InstrPos(call)+" "+w.Name(rel), fmt.Sprintf("%d states: release fails ⇔ the unlink failed for another reason than 'already gone'", states))
			}
		}
	}
	// constructor: after a successful acquire, every error return passes releaseLock; nothing but MkdirAll precedes acquire
	{
		var acqCall *ssa.Call
		for _, call := range callsIn(ctor, func(cc *ssa.CallCommon) bool { return staticCallee(cc) == acq }) {
			acqCall = call.(*ssa.Call)
		}
		if acqCall == nil {
			r.Bad(p+".RELEASE", "lock:ctor", w.Pos(ctor.Pos())+" "+w.Name(ctor), "constructor does not acquire the lock")
		} else {
			var succ *ssa.BasicBlock
			for _, ref := range *acqCall.Referrers() {
				if bo, ok := ref.(*ssa.BinOp); ok {
					for _, r2 := range *bo.Referrers() {
						if iff, ok := r2.(*ssa.If); ok {
							succ = iff.Block().Succs[1]
							if bo.Op == token.EQL {
								succ = iff.Block().Succs[0]
							}
						}
					}
				}
			}
			ok := succ != nil
			if ok {
				esc := reachAvoidAt(succ, 0, func(in ssa.Instruction) bool {
					ret, isRet := in.(*ssa.Return)
					return isRet && classifyErr(ret) == ErrNonNil
				}, func(in ssa.Instruction) bool {
					call, isCall := in.(*ssa.Call)
					return isCall && staticCallee(call.Common()) == rel
				})
				ok = esc == nil
			}
			r.Check(ok, p+".RELEASE", "lock:ctor-failure-releases", w.Pos(ctor.Pos())+" "+w.Name(ctor), "every failure after the lock was acquired releases it", "the constructor can fail after acquiring the lock without releasing it")
			pre := ""
			allInstrs(ctor, func(in ssa.Instruction) {
				if call, isCall := in.(ssa.CallInstruction); isCall && domInstr(in, acqCall) {
					cn := calleeName(call.Common())
					if fsMutators[cn] && cn != "os.MkdirAll" {
						pre = cn
					}
				}
			})
			// a refused acquisition (and any failure of the constructor) changes nothing else in the directory: after the
			// acquire call no file-system mutation is reachable except through the release routine
			var fail *ssa.BasicBlock
			for _, ref := range *acqCall.Referrers() {
				if bo, ok := ref.(*ssa.BinOp); ok {
					for _, r2 := range *bo.Referrers() {
						if iff, ok := r2.(*ssa.If); ok {
							fail = iff.Block().Succs[0]
							if bo.Op == token.EQL {
								fail = iff.Block().Succs[1]
							}
						}
					}
				}
			}
			if fail != nil {
				var mutates func(g *ssa.Function, depth int) string
				mutates = func(g *ssa.Function, depth int) string {
					out := ""
					if g == nil || g == rel || g == acq || depth > 2 {
						return ""
					}
					allInstrs(g, func(in ssa.Instruction) {
						if call, ok := in.(ssa.CallInstruction); ok {
							cn := calleeName(call.Common())
							if fsMutators[cn] {
								out = cn
							}
							if h := staticCallee(call.Common()); h != nil && h.Pkg == w.SPkg && h != g {
								if m := mutates(h, depth+1); m != "" {
									out = m
								}
							}
						}
					})
					return out
				}
				bad := ""
				hit := reachAvoidAt(fail, 0, func(in ssa.Instruction) bool {
					call, ok := in.(ssa.CallInstruction)
					if !ok {
						return false
					}
					cn := calleeName(call.Common())
					if fsMutators[cn] {
						bad = cn
						return true
					}
					if h := staticCallee(call.Common()); h != nil && h.Pkg == w.SPkg {
						if m := mutates(h, 0); m != "" {
							bad = m + " (in " + w.Name(h) + ")"
							return true
						}
					}
					return false
				}, func(in ssa.Instruction) bool { _, isRet := in.(*ssa.Return); return isRet })
				site := w.Pos(ctor.Pos()) + " " + w.Name(ctor)
				if hit != nil {
					site = w.InstrPos(hit) + " " + w.Name(ctor)
				}
				r.Check(hit == nil, p+".NOMOD", "lock:refused-changes-nothing", site, "an open that is refused the lock returns without touching the directory", "after the lock was refused the constructor still runs "+bad+": a loser of the race modifies (or deletes) the owner's directory")
			}
			r.Check(pre == "", p+".NOMOD", "lock:nothing-before", w.Pos(ctor.Pos())+" "+w.Name(ctor), "only the idempotent MkdirAll precedes the lock acquisition", pre+" modifies the directory before the lock is held")
		}
	}
	// Open: after the provider exists, every error return closes it
	{
		fn := k.Open
		var pc *ssa.Call
		for _, call := range callsIn(fn, func(cc *ssa.CallCommon) bool { return staticCallee(cc) == ctor }) {
			pc = call.(*ssa.Call)
		}
		if pc != nil {
			var succ *ssa.BasicBlock
			for _, ref := range *pc.Referrers() {
				if ex, ok := ref.(*ssa.Extract); ok && ex.Index == 1 {
					for _, r2 := range *ex.Referrers() {
						if bo, ok := r2.(*ssa.BinOp); ok {
							for _, r3 := range *bo.Referrers() {
								if iff, ok := r3.(*ssa.If); ok {
									succ = iff.Block().Succs[1]
									if bo.Op == token.EQL {
										succ = iff.Block().Succs[0]
									}
								}
							}
						}
					}
				}
			}
			ok := succ != nil
			if ok {
				esc := reachAvoidAt(succ, 0, func(in ssa.Instruction) bool {
					ret, isRet := in.(*ssa.Return)
					return isRet && classifyErr(ret) == ErrNonNil
				}, func(in ssa.Instruction) bool {
					call, isCall := in.(*ssa.Call)
					if !isCall {
						return false
					}
					g := staticCallee(call.Common())
					return g != nil && (g == rel || fnShortName(g) == "close" && len(callsIn(g, func(cc *ssa.CallCommon) bool { return staticCallee(cc) == rel })) > 0)
				})
				ok = esc == nil
			}
			r.Check(ok, p+".RELEASE", "lock:open-failure-releases", w.Pos(fn.Pos())+" "+w.Name(fn), "every failure of Open after the provider was created releases the lock", "Open can fail after the lock was acquired without releasing it")
		}
	}
	// Close: test-and-set of closed in one critical section; second Close ⇒ error before any effect; release after the workers stopped
	{
		fn := k.Close
		name := w.Name(fn)
		c := NewCanon(w)
		gate := findCloseGate(w, fn)
		var closedIf *ssa.If
		var closedSucc *ssa.BasicBlock
		if gate != nil {
			closedIf, closedSucc = gate.If, gate.Closed
			if gate.Helper != nil {
				r.Analysed(w.Name(gate.Helper))
			}
		}
		_ = c
		site := w.Pos(fn.Pos()) + " " + name
		if closedIf == nil {
			r.Bad(p+".CLOSED", "close:test", site, "Close does not test the closed flag")
		} else {
			t := closedSucc
			// a second Close fails, and has no effect on the way (resolved per path: the error may travel through a
			// variable before it is returned)
			eff := onlyFailsFrom(t, func(in ssa.Instruction) bool {
				if call, ok := in.(*ssa.Call); ok {
					n := calleeName(call.Common())
					if n == "builtin:close" || strings.HasSuffix(n, ".close") || strings.HasSuffix(n, "WaitGroup).Wait") {
						return true
					}
				}
				return false
			})
			okErr := eff == nil
			r.Check(okErr && eff == nil, p+".CLOSED", "close:idempotent", w.InstrPos(closedIf)+" "+name, "a second Close returns an error before any effect", "a second Close has effects or does not fail")
			r.Check(gate.Atomic, p+".CLOSED", "close:test-and-set", site, "closed is tested and set inside one write-locked section", "the closed flag is not tested-and-set atomically (two Closes can both proceed)")
		}
		wait := callsTo(fn, "(*sync.WaitGroup).Wait")
		var prov []*ssa.Call
		for _, call := range callsTo(fn, "(*"+cometPath+".storageProvider).close") {
			prov = append(prov, call)
		}
		prov = append(prov, callsTo(fn, "(*"+cometPath+".storageProvider).releaseLock")...)
		okRel := len(wait) == 1 && len(prov) >= 1
		for _, pcall := range prov {
			if len(wait) == 1 && !domInstr(wait[0], pcall) {
				okRel = false
			}
		}
		r.Check(okRel, p+".RELEASE", "close:release-after-workers", site, "the lock is released after the workers (final flush) have stopped", "the lock is released before wg.Wait(): a new owner can open while the old one still writes")
		// released on every path past the closed test
		var esc ssa.Instruction
		if closedIf != nil {
			paths, trunc := enumPaths(fn.Blocks[0], walkCfg{MaxVisits: 2, MaxPaths: 20000})
			if trunc {
				esc = fn.Blocks[0].Instrs[0]
			}
			for _, pth := range paths {
				if pth.End != EndReturn || !pth.Feasible() {
					continue
				}
				already, released := false, false
				for _, b := range pth.Blocks {
					if b == closedSucc {
						already = true
					}
				}
				for _, in := range pth.Instrs() {
					for _, pcall := range prov {
						if in == ssa.Instruction(pcall) {
							released = true
						}
					}
				}
				// nothing to release: the receiver itself or its provider was found nil on this path
				cn := NewCanon(w)
				for _, d := range pth.Decisions {
					bo, isB := d.Cond.(*ssa.BinOp)
					if !isB || (bo.Op != token.EQL && bo.Op != token.NEQ) {
						continue
					}
					l, rr := cn.S(bo.X), cn.S(bo.Y)
					if rr != "nil" {
						l, rr = rr, l
					}
					if rr != "nil" || (l != "P0" && l != "P0.provider") {
						continue
					}
					if d.Taken == (bo.Op == token.EQL) {
						released = true
					}
				}
				if !already && !released {
					esc = pth.Ret
				}
			}
		}
		r.Check(esc == nil, p+".RELEASE", "close:always-releases", site, "every completed Close releases the lock (also when the final flush failed)", "Close can return without releasing the lock")
	}
	// CLOSED typestate on the exported operations
	for _, m := range []string{"Add", "AddWithID", "Remove", "Flush", "Train"} {
		fn := w.Method(k.T, m)
		if fn == nil {
			continue
		}
		ruleClosedFirst(r, p+".CLOSED", fn, "P0")
	}
	ruleClosedFirst(r, p+".CLOSED", k.Execute, "P0."+indexFieldOfStore(k))
}

func indexFieldOfStore(k *storeKind) string {
	return indexFieldOf(k.SearchT, k.T)
}

// fieldOwner: the struct type whose field v addresses (for &x.f), else nil.
func fieldOwner(v ssa.Value) types.Type {
	if fa, ok := v.(*ssa.FieldAddr); ok {
		t := fa.X.Type()
		if p, ok := t.Underlying().(*types.Pointer); ok {
			return p.Elem()
		}
		return t
	}
	return nil
}

// deferredCalls lists the defer instructions of fn.
func deferredCalls(fn *ssa.Function) []*ssa.Defer {
	var out []*ssa.Defer
	allInstrs(fn, func(in ssa.Instruction) {
		if d, ok := in.(*ssa.Defer); ok {
			out = append(out, d)
		}
	})
	return out
}

// touchesFiles: g (or a same-package callee, bounded depth) calls into os, io or a compression package, decodes an index, or
// makes a dynamic call whose target is unknown.
func touchesFiles(w *World, g *ssa.Function, depth int, seen map[*ssa.Function]bool) bool {
	if seen[g] {
		return false
	}
	seen[g] = true
	hit := false
	allInstrs(g, func(in ssa.Instruction) {
		ci, ok := in.(ssa.CallInstruction)
		if !ok || hit {
			return
		}
		cm := ci.Common()
		if cm.IsInvoke() {
			switch cm.Method.Name() {
			case "Error", "String":
			default:
				hit = true
			}
			return
		}
		h := staticCallee(cm)
		if h == nil {
			if _, isB := cm.Value.(*ssa.Builtin); !isB {
				hit = true
			}
			return
		}
		if h.Pkg != nil && h.Pkg != w.SPkg {
			switch h.Pkg.Pkg.Path() {
			case "os", "io", "io/fs", "io/ioutil", "compress/gzip", "path/filepath", "syscall", "bufio":
				hit = true
			}
			return
		}
		if h.Pkg == w.SPkg {
			if depth == 0 || touchesFiles(w, h, depth-1, seen) {
				hit = true
			}
		}
	})
	return hit
}

// closeGate describes the test-and-set of the closed flag that guards Close.
type closeGate struct {
	If     *ssa.If         // branch in Close that separates "already closed" from "this call closes"
	Closed *ssa.BasicBlock // successor taken when the handle was already closed
	Set    ssa.Instruction // instruction in Close after which the flag is set (the store, or the helper call)
	Atomic bool            // test and set lie in one write-locked section
	Helper *ssa.Function   // the same-receiver method holding the section, when it was extracted
}

// closeGateIn: the test-and-set written out in fn itself.
func closeGateIn(w *World, fn *ssa.Function) *closeGate {
	c := NewCanon(w)
	var closedIf *ssa.If
	allInstrs(fn, func(in ssa.Instruction) {
		if iff, ok := in.(*ssa.If); ok && c.S(iff.Cond) == "P0.closed" && closedIf == nil {
			closedIf = iff
		}
	})
	if closedIf == nil {
		return nil
	}
	t := closedIf.Block().Succs[0]
	var lock, unlock, set ssa.Instruction
	allInstrs(fn, func(in ssa.Instruction) {
		switch x := in.(type) {
		case *ssa.Call:
			n := calleeName(x.Common())
			if n == "(*sync.RWMutex).Lock" && lock == nil {
				lock = in
			}
			if n == "(*sync.RWMutex).Unlock" && domInstr(closedIf, in) && unlock == nil && !t.Dominates(in.Block()) && in.Block() != t {
				unlock = in
			}
		case *ssa.Store:
			if c.S(x.Addr) == "P0.closed" {
				set = in
			}
		}
	})
	okCS := lock != nil && set != nil && unlock != nil && domInstr(lock, closedIf) && domInstr(closedIf, set) && domInstr(set, unlock)
	return &closeGate{If: closedIf, Closed: t, Set: set, Atomic: okCS}
}

// findCloseGate: the gate of Close, written inline or extracted into a method `g() bool` of the same receiver that
// answers false exactly on its already-closed branch; Close then branches on that answer.
func findCloseGate(w *World, fn *ssa.Function) *closeGate {
	if g := closeGateIn(w, fn); g != nil {
		return g
	}
	c := NewCanon(w)
	for _, cs := range callsIn(fn, func(cc *ssa.CallCommon) bool {
		g := staticCallee(cc)
		return g != nil && g.Pkg == w.SPkg && g.Signature.Recv() != nil && len(cc.Args) == 1 && c.S(cc.Args[0]) == "P0" &&
			g.Signature.Results().Len() == 1 && tstr(g.Signature.Results().At(0).Type(), nil) == "bool"
	}) {
		call, ok := cs.(*ssa.Call)
		if !ok {
			continue
		}
		h := staticCallee(call.Common())
		hg := closeGateIn(w, h)
		if hg == nil || !hg.Atomic {
			continue
		}
		// false ⇔ already closed
		consistent := true
		for _, ret := range returnsOf(h) {
			k, isC := ret.Results[0].(*ssa.Const)
			if !isC || k.Value == nil {
				consistent = false
				continue
			}
			onClosed := hg.Closed == ret.Block() || hg.Closed.Dominates(ret.Block())
			if constant.BoolVal(k.Value) == onClosed {
				consistent = false
			}
		}
		if !consistent {
			continue
		}
		// the branch on the answer
		for _, ref := range *call.Referrers() {
			v := ssa.Value(call)
			neg := false
			if u, ok := ref.(*ssa.UnOp); ok && u.Op == token.NOT {
				v, neg = u, true
			}
			refs := v.Referrers()
			if refs == nil {
				continue
			}
			for _, r2 := range *refs {
				iff, ok := r2.(*ssa.If)
				if !ok || iff.Cond != v {
					continue
				}
				closed := iff.Block().Succs[1] // answer false
				if neg {
					closed = iff.Block().Succs[0]
				}
				return &closeGate{If: iff, Closed: closed, Set: call, Atomic: true, Helper: h}
			}
		}
	}
	return nil
}

// closedTest finds the branch on <recv>.closed in fn: whether its true arm leaves with a non-nil error and whether the
// flag is loaded while <recv>.mu is held (a lock call dominates the load and no unlock lies between them).
func closedTest(w *World, fn *ssa.Function, recv string) (test *ssa.If, okErr, locked bool) {
	c := NewCanon(w)
	allInstrs(fn, func(in ssa.Instruction) {
		if iff, ok := in.(*ssa.If); ok && c.S(iff.Cond) == recv+".closed" && test == nil {
			test = iff
		}
	})
	if test == nil {
		return nil, false, false
	}
	t := test.Block().Succs[0]
	okErr = onlyFailsFrom(t, nil) == nil
	load, _ := test.Cond.(ssa.Instruction)
	if load == nil {
		return test, okErr, false
	}
	var locks, unlocks []ssa.Instruction
	allInstrs(fn, func(in ssa.Instruction) {
		if call, ok := in.(*ssa.Call); ok && len(call.Call.Args) > 0 && c.S(call.Call.Args[0]) == recv+".mu" {
			switch calleeName(call.Common()) {
			case "(*sync.RWMutex).RLock", "(*sync.RWMutex).Lock":
				locks = append(locks, in)
			case "(*sync.RWMutex).RUnlock", "(*sync.RWMutex).Unlock":
				unlocks = append(unlocks, in)
			}
		}
	})
	for _, l := range locks {
		if !domInstr(l, load) {
			continue
		}
		held := true
		for _, u := range unlocks {
			if domInstr(l, u) && domInstr(u, load) {
				held = false
			}
		}
		if held {
			locked = true
		}
	}
	return test, okErr, locked
}

// phiLeafContains: the canonical name of v, or of some value that can flow into v through phis, contains sub.
func phiLeafContains(c *Canon, v ssa.Value, sub string, depth int) bool {
	if strings.Contains(c.S(v), sub) {
		return true
	}
	if ph, ok := v.(*ssa.Phi); ok && depth > 0 {
		for _, e := range ph.Edges {
			if e != v && phiLeafContains(c, e, sub, depth-1) {
				return true
			}
		}
	}
	return false
}

// parsedByHelper: v is result #0 of a call to a comet function whose result #0 is, on some return, the value of
// strconv.ParseUint; returns that function.
func parsedByHelper(w *World, v ssa.Value) *ssa.Function {
	ex, ok := v.(*ssa.Extract)
	if !ok || ex.Index != 0 {
		return nil
	}
	call, ok := ex.Tuple.(*ssa.Call)
	if !ok {
		return nil
	}
	g := staticCallee(call.Common())
	if g == nil || g.Pkg != w.SPkg {
		return nil
	}
	c := NewCanon(w)
	for _, ret := range returnsOf(g) {
		if len(ret.Results) > 0 && strings.HasPrefix(c.S(ret.Results[0]), "strconv.ParseUint(") {
			return g
		}
	}
	return nil
}

// addressTaken: fn is used as a value (method value, closure binding, go/defer target through a value) somewhere.
func addressTaken(w *World, fn *ssa.Function) bool {
	taken := false
	for _, g := range w.Funcs {
		allInstrs(g, func(in ssa.Instruction) {
			for _, op := range in.Operands(nil) {
				if *op != ssa.Value(fn) {
					continue
				}
				if ci, ok := in.(ssa.CallInstruction); ok && ci.Common().Value == ssa.Value(fn) {
					continue // the callee position of a static call
				}
				taken = true
			}
		})
	}
	return taken
}

// ruleClosedFirst: the operation tests `closed` under the store mutex and fails before touching queue / segments / provider.
func ruleClosedFirst(r *Run, rule string, fn *ssa.Function, recv string) {
	w := r.W
	name := w.Name(fn)
	r.Analysed(name)
	c := NewCanon(w)
	site := w.Pos(fn.Pos()) + " " + name
	sentinelHook = func(g *ssa.Global) bool { return isSentinelError(w, g) }
	test, okErr, locked := closedTest(w, fn, recv)
	if test != nil && !okErr {
		// the test inlined from a helper: its error travels through a result variable to the caller's own return
		okErr = allPathsFail(test.Block().Succs[0])
	}
	if test == nil {
		// the test extracted into a method of the same receiver whose error is returned at once:
		// if err := s.errIfClosed(); err != nil { return …, err }
		for _, cs := range callsIn(fn, func(cc *ssa.CallCommon) bool {
			g := staticCallee(cc)
			return g != nil && g.Pkg == w.SPkg && g.Signature.Recv() != nil && len(cc.Args) == 1 && c.S(cc.Args[0]) == recv && errIndex(g) == 0 && g.Signature.Results().Len() == 1
		}) {
			call, ok := cs.(*ssa.Call)
			if !ok || test != nil {
				continue
			}
			g := staticCallee(call.Common())
			ht, hErr, hLocked := closedTest(w, g, "P0")
			if ht == nil || !hErr || !hLocked {
				continue
			}
			// the helper's error is tested right away and a non-nil one leaves the operation
			for _, ref := range *call.Referrers() {
				bo, ok := ref.(*ssa.BinOp)
				if !ok || bo.Op != token.NEQ {
					continue
				}
				for _, rr := range *bo.Referrers() {
					if iff, ok := rr.(*ssa.If); ok {
						t := iff.Block().Succs[0]
						if ret, ok := t.Instrs[len(t.Instrs)-1].(*ssa.Return); ok && classifyErr(ret) == ErrNonNil {
							test, okErr, locked = iff, true, true
							r.Analysed(w.Name(g))
						}
					}
				}
			}
		}
	}
	if test == nil {
		r.Bad(rule, "closed-first:"+name, site, "the operation does not test the closed flag")
		return
	}
	// dominates every use of the components
	okDom := true
	allInstrs(fn, func(in ssa.Instruction) {
		if u, ok := in.(*ssa.UnOp); ok && u.Op == token.MUL {
			s := c.S(u.X)
			if (s == recv+".memtableQueue" || s == recv+".segmentManager" || s == recv+".provider") && !domInstr(test, in) {
				okDom = false
			}
		}
	})
	r.Check(okErr && locked && okDom, rule, "closed-first:"+name, w.InstrPos(test)+" "+name, "closed is read under the mutex, a closed handle fails before queue / segments / provider are touched", fmt.Sprintf("closed test: error=%v under-mutex=%v dominates-uses=%v", okErr, locked, okDom))
}

// isSentinelError: g is a package-level error variable of comet assigned only by the package initialiser, from
// errors.New or fmt.Errorf.
func isSentinelError(w *World, g *ssa.Global) bool {
	if g.Pkg != w.SPkg || !types.Identical(g.Type().(*types.Pointer).Elem(), errorType) {
		return false
	}
	stores := 0
	ok := true
	for _, fn := range w.SPkg.Members {
		f, isF := fn.(*ssa.Function)
		if !isF {
			continue
		}
		allInstrs(f, func(in ssa.Instruction) {
			if st, isSt := in.(*ssa.Store); isSt && st.Addr == ssa.Value(g) {
				stores++
				if f.Name() != "init" {
					ok = false
				}
				v := st.Val
				if mi, isMI := v.(*ssa.MakeInterface); isMI {
					v = mi.X
				}
				c, isC := v.(*ssa.Call)
				if !isC || (calleeName(c.Common()) != "errors.New" && calleeName(c.Common()) != "fmt.Errorf") {
					ok = false
				}
			}
		})
	}
	// stores from methods / closures elsewhere
	for _, f := range w.Funcs {
		allInstrs(f, func(in ssa.Instruction) {
			if st, isSt := in.(*ssa.Store); isSt && st.Addr == ssa.Value(g) {
				ok = false
			}
		})
	}
	return ok && stores == 1
}

// errNonNilOnPath: the error value v is certainly non-nil on path p (errors.Join is non-nil as soon as one operand is).
func errNonNilOnPath(p *Path, v ssa.Value, depth int) bool {
	if depth > 4 {
		return false
	}
	v = resolveOnPath(p, v)
	if p.Ret != nil && classifyErrVal(v, p.Ret.Block()) == ErrNonNil {
		return true
	}
	if call, ok := v.(*ssa.Call); ok && calleeName(call.Common()) == "errors.Join" && len(call.Call.Args) == 1 {
		if es, ok := sliceElems(call.Call.Args[0]); ok {
			for _, e := range es {
				if errNonNilOnPath(p, e, depth+1) {
					return true
				}
			}
		}
	}
	return false
}

// harmlessOutcomeSend: the sent value is a struct literal that sets no slice-typed (hits) field, and in every function
// that receives from a channel of that struct type nothing derived from a received value reaches a return's error
// result or a panic.
func harmlessOutcomeSend(w *World, send *ssa.Send) bool {
	fields, ok := litFields(send.X)
	if !ok {
		return false
	}
	st, isStruct := send.X.Type().Underlying().(*types.Struct)
	if !isStruct {
		return false
	}
	for i := 0; i < st.NumFields(); i++ {
		if v, set := fields[roleFieldName(send.X.Type(), st.Field(i).Name())]; set {
			if _, isSlice := st.Field(i).Type().Underlying().(*types.Slice); isSlice {
				if c, isC := v.(*ssa.Const); !isC || c.Value != nil {
					return false
				}
			}
		}
	}
	receivers := 0
	for _, fn := range w.Funcs {
		tainted := map[ssa.Value]bool{}
		var work []ssa.Value
		add := func(v ssa.Value) {
			if v != nil && !tainted[v] {
				tainted[v] = true
				work = append(work, v)
			}
		}
		allInstrs(fn, func(in ssa.Instruction) {
			if u, isU := in.(*ssa.UnOp); isU && u.Op == token.ARROW {
				if ch, isCh := u.X.Type().Underlying().(*types.Chan); isCh && types.Identical(ch.Elem(), send.X.Type()) {
					add(u)
				}
			}
			if sel, isSel := in.(*ssa.Select); isSel {
				for _, stt := range sel.States {
					if ch, isCh := stt.Chan.Type().Underlying().(*types.Chan); isCh && stt.Dir == types.RecvOnly && types.Identical(ch.Elem(), send.X.Type()) {
						add(sel)
					}
				}
			}
		})
		if len(work) == 0 {
			continue
		}
		receivers++
		bad := false
		for len(work) > 0 {
			v := work[0]
			work = work[1:]
			if v.Referrers() == nil {
				continue
			}
			for _, ref := range *v.Referrers() {
				switch x := ref.(type) {
				case *ssa.Return:
					for i, res := range x.Results {
						if res == v && types.Identical(fn.Signature.Results().At(i).Type(), errorType) {
							bad = true
						}
						if res == v && fn.Signature.Results().At(i).Type().String() != "bool" && !types.Identical(fn.Signature.Results().At(i).Type(), errorType) {
							// hits travel on; only the error matters here
							_ = res
						}
					}
				case *ssa.Panic:
					bad = true
				case *ssa.Store:
					if x.Val == v {
						if a, isA := x.Addr.(*ssa.Alloc); isA {
							for _, r2 := range *a.Referrers() {
								if ld, isLd := r2.(*ssa.UnOp); isLd && ld.Op == token.MUL {
									add(ld)
								}
							}
						} else if ia, isIA := x.Addr.(*ssa.IndexAddr); isIA {
							// element of a (varargs) slice / array: the container is tainted
							root := ia.X
							add(root)
							if a, isA := root.(*ssa.Alloc); isA {
								for _, r2 := range *a.Referrers() {
									if vv, isV := r2.(ssa.Value); isV {
										add(vv)
									}
								}
							}
						} else if !isLocalCell(x.Addr) {
							// recorded in shared state: allowed only if that state never feeds an error result (not tracked)
							if types.Identical(x.Val.Type(), errorType) {
								continue
							}
						}
					}
				case *ssa.If:
					// a branch on a received value that commits to a failing return
					for _, succ := range x.Block().Succs {
						for _, ret := range returnsOf(fn) {
							if succ.Dominates(ret.Block()) && errIndex(fn) >= 0 && classifyErr(ret) != ErrNil {
								bad = true
							}
						}
						allInstrs(fn, func(in ssa.Instruction) {
							if _, isP := in.(*ssa.Panic); isP && succ.Dominates(in.Block()) {
								bad = true
							}
						})
					}
				case ssa.Value:
					add(x)
				}
			}
		}
		if bad {
			return false
		}
	}
	return receivers > 0
}

// errNilDecidedOnPath: some branch on path p tested result #idx of call (its error) against nil and took the nil outcome.
func errNilDecidedOnPath(p *Path, call *ssa.Call, idx int) bool {
	for _, d := range p.Decisions {
		bo, ok := d.Cond.(*ssa.BinOp)
		if !ok || (bo.Op != token.EQL && bo.Op != token.NEQ) {
			continue
		}
		isNil := func(y ssa.Value) bool { c, ok := y.(*ssa.Const); return ok && c.Value == nil }
		var x ssa.Value
		switch {
		case isNil(bo.Y):
			x = bo.X
		case isNil(bo.X):
			x = bo.Y
		default:
			continue
		}
		for i := 0; i < 8; i++ {
			ph, isPhi := x.(*ssa.Phi)
			if !isPhi {
				break
			}
			e := p.PhiEdgeAt(ph, d.At)
			if e == nil {
				break
			}
			x = e
		}
		match := false
		if ex, isEx := x.(*ssa.Extract); isEx && ex.Tuple == ssa.Value(call) && ex.Index == idx {
			match = true
		}
		if x == ssa.Value(call) && call.Type() != nil && types.Identical(call.Type(), errorType) {
			match = true
		}
		if match && d.Taken == (bo.Op == token.EQL) {
			return true
		}
	}
	return false
}

// orderedOnPath: a is executed before b on path p.
func orderedOnPath(p *Path, a, b ssa.Instruction) bool {
	seenA := false
	for _, in := range p.Instrs() {
		if in == a {
			seenA = true
		}
		if in == b {
			return seenA
		}
	}
	return false
}

// ruleCloseErrors: in the routines that write a segment, the error of every explicit (not deferred) Close of a writer
// reaches the routine's error result — a failed close means the bytes did not reach the file.
func ruleCloseErrors(r *Run, rule string, k *storeKind) {
	w := r.W
	for _, fn := range []*ssa.Function{k.FlushOne, k.WriteSeg} {
		n := 0
		bad := ""
		allInstrs(fn, func(in ssa.Instruction) {
			call, ok := in.(*ssa.Call)
			if !ok || !call.Call.IsInvoke() || call.Call.Method.Name() != "Close" {
				return
			}
			n++
			// forward flow of the returned error
			seen := map[ssa.Value]bool{}
			reaches := false
			var flow func(v ssa.Value, depth int)
			flow = func(v ssa.Value, depth int) {
				if seen[v] || depth > 10 || v.Referrers() == nil || reaches {
					return
				}
				seen[v] = true
				for _, ref := range *v.Referrers() {
					switch x := ref.(type) {
					case *ssa.Return:
						reaches = true
					case *ssa.Phi:
						flow(x, depth+1)
					case *ssa.MakeInterface:
						flow(x, depth+1)
					case *ssa.ChangeInterface:
						flow(x, depth+1)
					case *ssa.Store:
						if x.Val == v {
							switch a := x.Addr.(type) {
							case *ssa.Alloc:
								for _, r2 := range *a.Referrers() {
									if ld, ok := r2.(*ssa.UnOp); ok && ld.Op == token.MUL {
										flow(ld, depth+1)
									}
								}
							case *ssa.IndexAddr:
								// varargs of fmt.Errorf
								if arr, ok := a.X.(*ssa.Alloc); ok {
									for _, r2 := range *arr.Referrers() {
										if sl, ok := r2.(*ssa.Slice); ok {
											for _, r3 := range *sl.Referrers() {
												if c2, ok := r3.(*ssa.Call); ok && (calleeName(c2.Common()) == "fmt.Errorf" || calleeName(c2.Common()) == "errors.Join") {
													flow(c2, depth+1)
												}
											}
										}
									}
								}
							}
						}
					case *ssa.Call:
						if cn := calleeName(x.Common()); cn == "errors.Join" || cn == "fmt.Errorf" {
							flow(x, depth+1)
						}
					case *ssa.Slice:
						flow(x, depth+1)
					}
				}
			}
			flow(call, 0)
			if !reaches {
				bad = w.InstrPos(call)
			}
		})
		// a close loop `for _, c := range closers { if e := c.Close(); e != nil && err == nil { err = e } }`: as a table over
		// (close failed, an earlier error is pending) — a failed close is kept unless an earlier error already is
		allInstrs(fn, func(in ssa.Instruction) {
			call, ok := in.(*ssa.Call)
			if !ok || !call.Call.IsInvoke() || call.Call.Method.Name() != "Close" {
				return
			}
			loop := innermostLoop(loopsOf(fn), call.Block())
			if loop == nil {
				return
			}
			var errPhi *ssa.Phi
			for _, hin := range loop.Header.Instrs {
				if ph, ok := hin.(*ssa.Phi); ok && types.Identical(ph.Type(), errorType) {
					errPhi = ph
				}
			}
			if errPhi == nil {
				return
			}
			rows, trunc := iterationPaths(loop, func(cond ssa.Value) (string, bool) {
				bo, ok := cond.(*ssa.BinOp)
				if !ok || (bo.Op != token.EQL && bo.Op != token.NEQ) {
					return "", false
				}
				isNil := func(y ssa.Value) bool { k, ok := y.(*ssa.Const); return ok && k.Value == nil }
				var x ssa.Value
				switch {
				case isNil(bo.Y):
					x = bo.X
				case isNil(bo.X):
					x = bo.Y
				default:
					return "", false
				}
				switch x {
				case ssa.Value(call):
					return "CLOSEFAILED", bo.Op == token.EQL
				case ssa.Value(errPhi):
					return "PENDING", bo.Op == token.EQL
				}
				return "", false
			})
			if trunc {
				return
			}
			badRows, _ := tableCheck([]string{"CLOSEFAILED", "PENDING"}, rows, func(row pathRow) string {
				if row.P.End == EndStop && row.P.Blocks[len(row.P.Blocks)-1] == loop.Header {
					e := row.P.PhiEdge(errPhi)
					if e != nil {
						e = resolveOnPath(row.P, e)
					}
					if e == ssa.Value(call) {
						return "takes"
					}
					// joined with / wrapped around the pending error
					if jc, isCall := e.(*ssa.Call); isCall {
						if cn := calleeName(jc.Common()); cn == "errors.Join" || cn == "fmt.Errorf" {
							if len(jc.Call.Args) > 0 {
								if es, okE := sliceElems(jc.Call.Args[len(jc.Call.Args)-1]); okE {
									for _, x := range es {
										if mi, isMI := x.(*ssa.MakeInterface); isMI {
											x = mi.X
										}
										if resolveOnPath(row.P, x) == ssa.Value(call) {
											return "takes"
										}
									}
								}
							}
						}
					}
					return "keeps"
				}
				return "leaves"
			}, func(a map[string]bool) string {
				switch {
				case a["CLOSEFAILED"] && !a["PENDING"]:
					return "takes|leaves"
				case a["CLOSEFAILED"]:
					return "takes|keeps|leaves"
				case a["PENDING"]:
					return "keeps|leaves"
				}
				return "keeps|takes" // nil over nil
			})
			if len(badRows) > 0 {
				bad = w.InstrPos(call) + " (" + truncList(badRows, 2) + ")"
			}
		})
		if n == 0 {
			r.Bad(rule, "err:close:"+w.Name(fn), w.Pos(fn.Pos())+" "+w.Name(fn), "the segment writer never closes its streams explicitly: a failed close cannot be reported")
			continue
		}
		r.Check(bad == "", rule, "err:close:"+w.Name(fn), w.Pos(fn.Pos())+" "+w.Name(fn), fmt.Sprintf("the error of every explicit Close (%d sites) reaches the result", n),
			"the error of the Close at "+bad+" never reaches the routine's result: a segment whose data did not reach the file is registered as written")
	}
}

package main

func init() {
	register("C03", propMeta{
		Explanation: "Structural necessary conditions of 'BM25 returns exactly the matching live documents with textbook scores': admission table of the scoring loop (soft delete, id filter) and its iteration over the postings of the normalised query tokens; tokenize∘normalize on both sides (NFKC, lower-case, UAX#29 by resolved callee); the score expression compared structurally with Okapi BM25 (constants folded: k1=1.2, b=0.75); co-update and deltas of the statistics fields with avgDocLen recomputation on every path; replace purges first; Flush purges every soft-deleted id before Clear; min-heap top-k order consistency; Execute pipeline (aggregate → limit → autocut).",
		NotDecided:  "numeric score values up to rounding, behaviour of the UAX#29 segmenter / NFKC tables on particular strings.",
		Assumptions: []string{"roaring.Bitmap contracts", "container/heap keeps the Less-minimum at index 0", "uax29 / x/text behave as documented"},
	}, func(r *Run) {
		ruleErrProp(r, "C03.ERRPROP", "bm25_index")
		k, err := textKindOf(r.W)
		if err != nil {
			r.Unres("C03.KIND", "bm25", err.Error())
			return
		}
		ruleBM25ADM(r, "C03.ADM", k)
		ruleBM25Formula(r, "C03.FORMULA", k)
		ruleTokenize(r, "C03.TOK")
		ruleBM25Stats(r, "C03.STATS", k)
		ruleBM25Replace(r, "C03.REPL", k)
		ruleBM25Flush(r, "C03.FLUSH", k)
		ruleBM25TopK(r, "C03.HEAP", k)
		ruleConsts(r, "C03.CONST", map[string]string{"K1": "1.2", "B": "0.75"})
		rulePipeline(r, "C03.PIPE", k.Execute, k.Single, "text")
		ruleTextRemoveMarks(r, "C03.REMOVE", k)
		ruleTextRevive(r, k)
		ruleAggregations(r, "C03")
		ruleLimitAutocut(r, "C03")
		ruleDocumentFilter(r, "C03.FILTER")
		nb := 0
		for _, T := range builderTypes(r.W, "TextSearch") {
			nb += ruleBuilders(r, "C03.BLD", T)
		}
		if nb < 5 {
			r.add("C03.BLD", "floor", "-", "fewer than 5 builder methods on the text search type", Floor)
		}
		r.FloorCheck("C03.ADM", 3)
		r.FloorCheck("C03.STATS", 6)
		r.FloorCheck("C03.HEAP", 5)
	})
}

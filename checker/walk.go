package main

// walk.go — bounded path enumeration over the SSA control-flow graph with per-path
// phi resolution. Used by the admission (ADM) and finite-ordering (ORD) rules: code that
// touches runtime quantities only through comparisons takes the same path for all inputs
// inducing the same truth assignment of its branch conditions.

import (
	"go/constant"
	"go/token"

	"golang.org/x/tools/go/ssa"
)

type Decision struct {
	If    *ssa.If
	Cond  ssa.Value
	Taken bool // true: Succs[0]
	At    int  // index in Path.Blocks of the block that ends with this branch
}

type PathEnd int

const (
	EndReturn PathEnd = iota
	EndPanic
	EndStop  // reached a block for which stop() holds
	EndCycle // a block would be visited more than maxVisits times
)

type Path struct {
	Blocks    []*ssa.BasicBlock
	Decisions []Decision
	End       PathEnd
	Ret       *ssa.Return
}

// PhiEdge resolves phi to the operand selected on this path (last entry into its block).
func (p *Path) PhiEdge(phi *ssa.Phi) ssa.Value {
	b := phi.Block()
	for i := len(p.Blocks) - 1; i > 0; i-- {
		if p.Blocks[i] == b {
			pred := p.Blocks[i-1]
			for j, q := range b.Preds {
				if q == pred {
					return phi.Edges[j]
				}
			}
		}
	}
	return nil
}

// PhiEdgeAt resolves phi to the operand selected at the last entry into its block at or before position at.
func (p *Path) PhiEdgeAt(phi *ssa.Phi, at int) ssa.Value {
	b := phi.Block()
	if at >= len(p.Blocks) {
		at = len(p.Blocks) - 1
	}
	for i := at; i > 0; i-- {
		if p.Blocks[i] == b {
			pred := p.Blocks[i-1]
			for j, q := range b.Preds {
				if q == pred {
					return phi.Edges[j]
				}
			}
		}
	}
	return nil
}

// Instrs returns the instructions executed on the path, in order.
func (p *Path) Instrs() []ssa.Instruction {
	var out []ssa.Instruction
	for i, b := range p.Blocks {
		if i == len(p.Blocks)-1 && p.End == EndStop {
			break // the stop block itself is not executed
		}
		out = append(out, b.Instrs...)
	}
	return out
}

func (p *Path) Has(in ssa.Instruction) bool {
	for i, b := range p.Blocks {
		if i == len(p.Blocks)-1 && p.End == EndStop {
			break
		}
		if b == in.Block() {
			return true
		}
	}
	return false
}

// DecisionOn returns the outcome of the branch on cond, if the path evaluated it.
func (p *Path) DecisionOn(cond ssa.Value) (taken, ok bool) {
	for _, d := range p.Decisions {
		if d.Cond == cond {
			return d.Taken, true
		}
	}
	return false, false
}

type walkCfg struct {
	Stop      func(b *ssa.BasicBlock) bool // path ends on entering such a block
	Decide    func(cond ssa.Value, p *Path) (val bool, known bool)
	MaxVisits int
	MaxPaths  int
}

// enumPaths enumerates CFG paths from start. Unknown branches fork.
// pathScale multiplies every path-enumeration budget (1 in the quick tier, 4 in the thorough tier).
var pathScale = 1

func enumPaths(start *ssa.BasicBlock, cfg walkCfg) (paths []*Path, truncated bool) {
	if cfg.MaxVisits == 0 {
		cfg.MaxVisits = 1
	}
	if cfg.MaxPaths == 0 {
		cfg.MaxPaths = 20000
	}
	cfg.MaxPaths *= pathScale // thorough tier: four times the enumeration budget before a rule answers "undecided"
	var rec func(p *Path, b *ssa.BasicBlock, first bool)
	rec = func(p *Path, b *ssa.BasicBlock, first bool) {
		if truncated {
			return
		}
		if len(paths) >= cfg.MaxPaths {
			truncated = true
			return
		}
		if !first && cfg.Stop != nil && cfg.Stop(b) {
			q := clonePath(p)
			q.Blocks = append(q.Blocks, b)
			q.End = EndStop
			paths = append(paths, q)
			return
		}
		visits := 0
		for _, x := range p.Blocks {
			if x == b {
				visits++
			}
		}
		if visits >= cfg.MaxVisits {
			q := clonePath(p)
			q.Blocks = append(q.Blocks, b)
			q.End = EndCycle
			paths = append(paths, q)
			return
		}
		p.Blocks = append(p.Blocks, b)
		defer func() { p.Blocks = p.Blocks[:len(p.Blocks)-1] }()
		if len(b.Instrs) == 0 {
			return
		}
		switch last := b.Instrs[len(b.Instrs)-1].(type) {
		case *ssa.Return:
			q := clonePath(p)
			q.End = EndReturn
			q.Ret = last
			paths = append(paths, q)
		case *ssa.Panic:
			q := clonePath(p)
			q.End = EndPanic
			paths = append(paths, q)
		case *ssa.Jump:
			rec(p, b.Succs[0], false)
		case *ssa.If:
			try := func(taken bool) {
				p.Decisions = append(p.Decisions, Decision{If: last, Cond: last.Cond, Taken: taken, At: len(p.Blocks) - 1})
				if taken {
					rec(p, b.Succs[0], false)
				} else {
					rec(p, b.Succs[1], false)
				}
				p.Decisions = p.Decisions[:len(p.Decisions)-1]
			}
			if cfg.Decide != nil {
				if val, known := cfg.Decide(last.Cond, p); known {
					try(val)
					return
				}
			}
			// a condition whose value is fixed by the path taken so far: a phi of boolean constants, or a nil test of a
			// value that resolves (through phis, along this path) to nil or to a freshly constructed non-nil value
			if val, known := decideOnPath(last.Cond, p); known {
				try(val)
				return
			}
			// a named condition (`outOfRange := a || b; if outOfRange`): a boolean phi that received another condition on
			// this path is decided like that condition
			if cfg.Decide != nil {
				if rc, rneg, isConst, _, ok := condOnPath(p, Decision{If: last, Cond: last.Cond, At: len(p.Blocks) - 1}); ok && !isConst && rc != nil {
					if val, known := cfg.Decide(rc, p); known {
						try(val != rneg)
						return
					}
				}
			}
			// a condition already decided earlier on this path keeps its value, unless it was recomputed
			// since (its defining block was executed again, e.g. a loop condition)
			if prev, ok := p.DecisionOn(last.Cond); ok {
				recomputed := false
				if di, isInstr := last.Cond.(ssa.Instruction); isInstr {
					n := 0
					for _, x := range p.Blocks {
						if x == di.Block() {
							n++
						}
					}
					recomputed = n > 1
				}
				if !recomputed {
					try(prev)
					return
				}
			}
			try(true)
			try(false)
		default:
			// e.g. unreachable block ending without terminator
		}
	}
	rec(&Path{}, start, true)
	return paths, truncated
}

// forwardLocalLoad: v is a load of a field of a local struct (or of a local variable cell) that is written exactly once
// and whose address goes nowhere else: the value stored. (`present := parts{vector: a && b}; if present.vector` — the
// compiler keeps such structs in memory, the decision is still the one taken when the field was computed.)
func forwardLocalLoad(v ssa.Value) ssa.Value {
	copies := 0
	for i := 0; i < 4; i++ {
		ld, ok := v.(*ssa.UnOp)
		if !ok || ld.Op != token.MUL {
			return v
		}
		var root *ssa.Alloc
		field := -1
		switch a := ld.X.(type) {
		case *ssa.FieldAddr:
			root, _ = a.X.(*ssa.Alloc)
			field = a.Field
		case *ssa.Alloc:
			root = a
		}
		if root == nil || root.Referrers() == nil {
			return v
		}
		var stored ssa.Value
		n := 0
	again:
		for _, ref := range *root.Referrers() {
			switch x := ref.(type) {
			case *ssa.FieldAddr:
				for _, r2 := range *x.Referrers() {
					switch y := r2.(type) {
					case *ssa.Store:
						if y.Addr != ssa.Value(x) {
							return v // the field's address is stored somewhere
						}
						if x.Field == field {
							stored = y.Val
							n++
						}
					case *ssa.UnOp:
					case *ssa.DebugRef:
					default:
						return v
					}
				}
			case *ssa.Store:
				if x.Addr != ssa.Value(root) {
					return v
				}
				if field < 0 {
					stored = x.Val
					n++
				} else {
					// the whole struct copied from another local (a composite literal built in a temporary): look there
					if src, ok := x.Val.(*ssa.UnOp); ok && src.Op == token.MUL {
						if a2, ok := src.X.(*ssa.Alloc); ok && a2 != root && a2.Referrers() != nil && copies < 3 {
							copies++
							root, stored, n = a2, nil, 0
							goto again
						}
					}
					return v
				}
			case *ssa.UnOp, *ssa.DebugRef:
			default:
				return v // escapes (call argument, closure binding, …)
			}
		}
		if n != 1 || stored == nil {
			return v
		}
		v = stored
	}
	return v
}

func decideOnPath(cond ssa.Value, p *Path) (bool, bool) {
	neg := false
	for {
		u, ok := cond.(*ssa.UnOp)
		if !ok || u.Op != token.NOT {
			break
		}
		neg = !neg
		cond = u.X
	}
	if f := forwardLocalLoad(cond); f != cond {
		b, ok := decideOnPath(f, p)
		return b != neg, ok
	}
	v := cond
	if _, isPhi := v.(*ssa.Phi); isPhi {
		v = resolveOnPath(p, v)
		if v == cond {
			return false, false
		}
		// resolved to a negation / another phi chain end
		for {
			u, ok := v.(*ssa.UnOp)
			if !ok || u.Op != token.NOT {
				break
			}
			neg = !neg
			v = u.X
		}
	}
	if k, ok := v.(*ssa.Const); ok && k.Value != nil && k.Value.Kind() == constant.Bool {
		return constant.BoolVal(k.Value) != neg, true
	}
	bo, ok := v.(*ssa.BinOp)
	if !ok || (bo.Op != token.EQL && bo.Op != token.NEQ) {
		return false, false
	}
	isNil := func(y ssa.Value) bool { c, ok := y.(*ssa.Const); return ok && c.Value == nil }
	var x ssa.Value
	switch {
	case isNil(bo.Y):
		x = bo.X
	case isNil(bo.X):
		x = bo.Y
	default:
		return false, false
	}
	if _, isPhi := x.(*ssa.Phi); !isPhi {
		return false, false // only values the path itself determines
	}
	r := resolveOnPath(p, x)
	if r == x {
		return false, false
	}
	var nilness int // 1 nil, 2 non-nil
	switch y := r.(type) {
	case *ssa.Const:
		if y.Value == nil {
			nilness = 1
		}
	case *ssa.MakeInterface:
		nilness = 2
	case *ssa.Call:
		switch calleeName(y.Common()) {
		case "fmt.Errorf", "errors.New":
			nilness = 2
		}
	case *ssa.UnOp:
		// a package-level sentinel error (`var errClosed = errors.New(…)`, stored only by the initialiser)
		if g, ok := y.X.(*ssa.Global); ok && y.Op == token.MUL && sentinelHook != nil && sentinelHook(g) {
			nilness = 2
		}
	}
	if nilness == 0 {
		// the same value was tested against nil earlier on this path (`v, err := f(); if err != nil { … }` inside an
		// inlined helper, then `if e == nil` on the variable that received it): the earlier outcome stands
		nilness = testedNilness(p, r)
	}
	if nilness == 0 {
		return false, false
	}
	val := (nilness == 1) == (bo.Op == token.EQL)
	return val != neg, true
}

// testedNilness: 1 (nil) / 2 (non-nil) when a decision of the path compared r — directly or through phis resolved at
// that point — with nil, and r was computed once on the path; 0 otherwise.
func testedNilness(p *Path, r ssa.Value) int {
	if in, ok := r.(ssa.Instruction); ok {
		n := 0
		for _, b := range p.Blocks {
			if b == in.Block() {
				n++
			}
		}
		if n > 1 {
			return 0
		}
	}
	isNil := func(y ssa.Value) bool { c, ok := y.(*ssa.Const); return ok && c.Value == nil }
	for _, d := range p.Decisions {
		cnd, neg := stripNot(d.Cond)
		bo, ok := cnd.(*ssa.BinOp)
		if !ok || (bo.Op != token.EQL && bo.Op != token.NEQ) {
			continue
		}
		var x ssa.Value
		switch {
		case isNil(bo.Y):
			x = bo.X
		case isNil(bo.X):
			x = bo.Y
		default:
			continue
		}
		for i := 0; i < 8; i++ {
			ph, isPhi := x.(*ssa.Phi)
			if !isPhi {
				break
			}
			e := p.PhiEdgeAt(ph, d.At)
			if e == nil {
				break
			}
			x = e
		}
		if x != r {
			continue
		}
		wasNil := (bo.Op == token.EQL) == (d.Taken != neg)
		if wasNil {
			return 1
		}
		return 2
	}
	return 0
}

// sentinelHook tells whether a global is a sentinel error of the analysed package (set per run, rules_store2.go).
var sentinelHook func(*ssa.Global) bool

func clonePath(p *Path) *Path {
	q := &Path{End: p.End, Ret: p.Ret}
	q.Blocks = append([]*ssa.BasicBlock(nil), p.Blocks...)
	q.Decisions = append([]Decision(nil), p.Decisions...)
	return q
}

// ---------------------------------------------------------------- comparison atoms

// Cmp is a normalised comparison L op R with op in {<, <=, ==}; Neg flips the truth value.
type Cmp struct {
	L, R string
	Op   token.Token
}

// normCmp normalises a BinOp comparison into (cmp, negated): a>b ≡ b<a, a>=b ≡ b<=a, a!=b ≡ !(a==b).
func normCmp(c *Canon, b *ssa.BinOp) (Cmp, bool, bool) {
	l, r := c.S(b.X), c.S(b.Y)
	switch b.Op {
	case token.LSS:
		return Cmp{l, r, token.LSS}, false, true
	case token.LEQ:
		return Cmp{l, r, token.LEQ}, false, true
	case token.GTR:
		return Cmp{r, l, token.LSS}, false, true
	case token.GEQ:
		return Cmp{r, l, token.LEQ}, false, true
	case token.EQL:
		if l > r {
			l, r = r, l
		}
		return Cmp{l, r, token.EQL}, false, true
	case token.NEQ:
		if l > r {
			l, r = r, l
		}
		return Cmp{l, r, token.EQL}, true, true
	}
	return Cmp{}, false, false
}

// Rel is the relation between two symbols in a weak order.
type Rel int

const (
	LT Rel = -1
	EQ Rel = 0
	GT Rel = 1
)

// evalCmp evaluates a normalised comparison given the relation of L to R.
func evalCmp(c Cmp, rel Rel) bool {
	switch c.Op {
	case token.LSS:
		return rel == LT
	case token.LEQ:
		return rel != GT
	case token.EQL:
		return rel == EQ
	}
	return false
}

// weakOrders enumerates all weak orders of n symbols as rank vectors (rank[i] in 0..n-1, dense).
func weakOrders(n int) [][]int {
	var out [][]int
	rank := make([]int, n)
	var rec func(i int)
	rec = func(i int) {
		if i == n {
			// dense check: ranks used must be 0..max without gaps
			used := map[int]bool{}
			max := 0
			for _, r := range rank {
				used[r] = true
				if r > max {
					max = r
				}
			}
			for r := 0; r <= max; r++ {
				if !used[r] {
					return
				}
			}
			out = append(out, append([]int(nil), rank...))
			return
		}
		for r := 0; r < n; r++ {
			rank[i] = r
			rec(i + 1)
		}
	}
	rec(0)
	return out
}

func relOf(a, b int) Rel {
	switch {
	case a < b:
		return LT
	case a > b:
		return GT
	}
	return EQ
}

// Feasible reports false when the path provably contradicts itself on a boolean flag: the values of
// boolean phis are tracked along the path (position-aware, parallel phi assignment) and every branch
// on such a phi (possibly negated) must agree with its constant value.
func (p *Path) Feasible() bool {
	env := map[*ssa.Phi]*bool{}
	di := 0
	for i, b := range p.Blocks {
		if i > 0 {
			pred := p.Blocks[i-1]
			idx := -1
			for j, q := range b.Preds {
				if q == pred {
					idx = j
				}
			}
			next := map[*ssa.Phi]*bool{}
			for _, in := range b.Instrs {
				phi, ok := in.(*ssa.Phi)
				if !ok {
					break
				}
				if idx < 0 {
					next[phi] = nil
					continue
				}
				switch e := phi.Edges[idx].(type) {
				case *ssa.Const:
					if e.Value != nil && e.Value.Kind() == constant.Bool {
						v := constant.BoolVal(e.Value)
						next[phi] = &v
					} else {
						next[phi] = nil
					}
				case *ssa.Phi:
					next[phi] = env[e]
				default:
					next[phi] = nil
				}
			}
			for k, v := range next {
				env[k] = v
			}
		}
		for di < len(p.Decisions) && p.Decisions[di].At == i {
			d := p.Decisions[di]
			di++
			v := d.Cond
			neg := false
			for {
				u, ok := v.(*ssa.UnOp)
				if !ok || u.Op != token.NOT {
					break
				}
				neg = !neg
				v = u.X
			}
			if phi, ok := v.(*ssa.Phi); ok {
				if val := env[phi]; val != nil && (*val != neg) != d.Taken {
					return false
				}
			}
		}
	}
	return true
}

package main

func init() {
	register("C18", propMeta{
		Explanation: "Structural conditions of the metric laws that are visible in the code of distance.go: each kind's accumulator and result expressions equal the metric's definition (Σ(x−y)², sqrt for l2, Σx·y and 1−clamp for cosine) in normal form, for Calculate and CalculateBatch alike (batch = element-wise); both operands read at one index; the clamp table over all weak orders of (dot,−1,1) ⇒ result ∈ [0,2]; normalisation = x·(1/sqrt(Σx²)) with the norm==0 test dominating the division and ErrZeroVector returned by both cosine preprocessors; Euclidean-family preprocessing is the identity; no function writes through its slice parameters; Norm/Scale/Normalize definitions; NewDistance maps each declared kind to its implementation, anything else ⇒ error.",
		NotDecided:  "numerical laws up to rounding: non-negativity / symmetry / triangle inequality of the computed floats, scale invariance, unit norm after preprocessing, 1−cos accuracy.",
		Assumptions: []string{"math.Sqrt is the IEEE square root", "float32 arithmetic as specified by Go"},
	}, func(r *Run) {
		ruleDistance(r, "C18")
		r.FloorCheck("C18.DEF", 20)
		r.FloorCheck("C18.IMM", 12)
		r.FloorCheck("C18.CLAMP", 2)
		r.FloorCheck("C18.ZERO", 5)
	})
}

#!/bin/bash
set -e
cd "$(dirname "$0")/checker"
export PATH=/opt/veriftools/go1.26.8/bin:$PATH
export GOFLAGS=-mod=mod GOPROXY=off GOSUMDB=off GOTOOLCHAIN=local GOWORK=off
mkdir -p ../bin
go build -o ../bin/cometlint .
echo "built bin/cometlint"

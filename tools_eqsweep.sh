#!/bin/bash
# usage: tools_eqsweep.sh <out.tsv> <workers> [id-list-file]
# False-alarm sweep (DESIGN 11.14): every single-site behaviour-preserving rewrite of tools_eqgen is applied to a scratch copy
# of /repo; variants that do not build are dropped (a generated name may collide, a goto may jump over a new declaration);
# the checker runs on the rest. Every alarm is a false alarm by construction.
# Output line: id <TAB> site <TAB> operator <TAB> detail <TAB> alarming rules (first few)|- 
set -u
OUT=$1; W=${2:-6}; IDS=${3:-}
export PATH=/opt/veriftools/go1.26.8/bin:$PATH GOFLAGS=-mod=mod GOPROXY=off GOSUMDB=off GOTOOLCHAIN=local GOWORK=off
(cd /verif/tools_eqgen && go build -o /tmp/eqgen .) || exit 2
N=$(/tmp/eqgen -repo /repo -list | wc -l)
one() {
  id=$1
  S=$(mktemp -d /tmp/eqswXXXXXX)
  rsync -a --exclude .git --exclude docs /repo/ $S/repo/
  mkdir -p $S/verif; cp /verif/KNOWN_FINDINGS.jsonl $S/verif/
  desc=$(/tmp/eqgen -repo /repo -apply $id -out $S/repo 2>/dev/null)
  site=$(echo "$desc" | awk '{print $2}'); op=$(echo "$desc" | awk '{print $3}'); det=$(echo "$desc" | cut -d' ' -f4-)
  if ! (cd $S/repo && go build ./... >/dev/null 2>&1 && go vet . >/dev/null 2>&1); then
    printf "%s\t%s\t%s\t%s\tNOBUILD\n" "$id" "$site" "$op" "$det"; rm -rf $S; return
  fi
  /verif/bin/cometlint -prop all -repo $S/repo -verif $S/verif > $S/out.txt 2>&1
  rules=$(grep -E "^(VIOLATION|UNDECIDED|UNRESOLVED|FLOOR|LOAD-FAILURE) " $S/out.txt | grep -v "^VIOLATION property" | awk '{print $2}' | sed 's/^C[0-9]*\.//' | sort -u | head -4 | paste -sd,)
  printf "%s\t%s\t%s\t%s\t%s\n" "$id" "$site" "$op" "$det" "${rules:--}"
  rm -rf $S
}
export -f one
if [ -n "$IDS" ]; then cat $IDS; else seq 0 $((N-1)); fi | xargs -P $W -I{} bash -c 'one {}' >> $OUT
# every variant is built at a fresh path: the build cache grows by tens of GB over a sweep; drop it
go clean -cache >/dev/null 2>&1

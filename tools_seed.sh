#!/bin/bash
# usage: tools_seed.sh <patch.diff> <props>   — apply a seeded patch to a scratch copy and run the checks there
set -u
S=$(mktemp -d /tmp/seedrunXXXXXX)
rsync -a --exclude .git /repo/ $S/repo/
mkdir -p $S/verif; cp /verif/KNOWN_FINDINGS.jsonl $S/verif/ 2>/dev/null
( cd $S/repo && patch -p1 -s < "$1" ) || { echo "PATCH FAILED"; rm -rf $S; exit 3; }
/verif/bin/cometlint -prop "$2" -repo $S/repo -verif $S/verif 2>&1 | grep -vE "^VIOLATION property" | cut -c1-330
rm -rf $S

#!/bin/bash
# usage: selftest.sh <Cxx>
# Seeded-defect self-validation (thorough tier): every archived seeded defect that this property's check is recorded to
# catch (seeded/EXPECT.json) is applied to a scratch copy of the CURRENT /repo and the check must report it.
# A seed that applies but is not reported is printed as SELFTEST-MISS and counted in the summary line that goes into the
# evidence file; it does not change the exit status of the property check. Seeds whose patch no longer applies are skipped.
set -u
cd "$(dirname "$0")"
PROP="$1"
REPO="${VERIF_REPO:-/repo}"
rc=0; n=0; caught=0; skipped=0
for id in $(python3 -c "
import json,sys
e=json.load(open('seeded/EXPECT.json'))
print(' '.join(sorted(k for k,v in e.items() if '$PROP' in v)))"); do
  S=$(mktemp -d "${TMPDIR:-/tmp}/selftestXXXXXX")
  rsync -a --exclude .git "$REPO"/ $S/repo/
  mkdir -p $S/verif; cp KNOWN_FINDINGS.jsonl $S/verif/
  if ! (cd $S/repo && patch -p1 -s --no-backup-if-mismatch < "$OLDPWD/seeded/$id/patch.diff" >/dev/null 2>&1); then
    skipped=$((skipped+1)); echo "selftest $PROP: seed $id does not apply to the current tree — skipped"
  else
    n=$((n+1))
    if ./bin/cometlint -prop "$PROP" -repo $S/repo -verif $S/verif > $S/out.txt 2>&1; then
      echo "SELFTEST-MISS property=$PROP seed=$id: the seeded defect applies but the check reports nothing"
    else
      caught=$((caught+1))
    fi
  fi
  rm -rf $S
done
echo "selftest $PROP: $caught of $n applicable seeded defects reported, $skipped skipped"
exit $rc

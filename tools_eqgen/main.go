// eqgen — generator of single-site *behaviour-preserving* rewrites of the comet package, for the false-alarm sweep
// described in DESIGN.md (section 11.14). Every rewrite is an equivalence by construction (no judgement involved), so any
// alarm a check raises on a variant that still builds is a false alarm. It is tooling: no check depends on it.
//
//	eqgen -repo /repo -list                 prints one line per site: id file:line operator detail
//	eqgen -repo /repo -apply ID -out DIR    writes the rewritten file(s) into DIR (a copy of the repo)
//
// Operators:
//
//	name-cond     if C {…}                  →  c := C; if c {…}
//	invert-if     if C {A} else {B}         →  if !(C) {B} else {A}
//	demorgan      if A && B / A || B        →  if !(!(A) || !(B)) / !(!(A) && !(B))
//	flip-cmp      a < b (pure operands)     →  b > a
//	ret-temp      return E (one result)     →  r := E; return r
//	early-cont    loop body ending in if C {A}      →  if !(C) { continue }; A
//	nest-guard    if C { continue }; rest   →  if !(C) { rest }
//	swap-params   unexported f(a A, b B)    →  f(b B, a A) with every call site updated (pure arguments only)
//	else-wrap     if C {…; return}; rest    →  if C {…; return} else { rest }
//	split-and     if A && B {X}             →  if A { if B {X} }
//	merge-if      if A { if B {X} }         →  if A && B {X}
//	switch-if     switch [pure tag] {case…} →  if / else-if chain (no fallthrough, no break)
//	range-index   for i, v := range xs {…}  →  for i := 0; i < len(xs); i++ { v := xs[i]; … } (xs a slice, not written in the body)
//	op-assign     x += y                    →  x = x + y (pure x)
//	incdec        i++                       →  i += 1
//	var-decl      x := e                    →  var x = e
//	rename-local  a local variable renamed consistently (fresh name)
//	move-func     a function declaration moved to the end of its file
//	range-int     for i := 0; i < N; i++ {…}  →  for i := range N {…} (N a variable, field path or len of one that the body
//	              does not assign or append to; i not assigned in the body)
//	clamp-builtin if x > y { x = y }  →  x = min(x, y);  if x < y { x = y }  →  x = max(x, y)   (pure x, y; ordered non-float or float: min/max
//	              differ from the if form only for NaN, so float operands are left alone)
//	iface-any     interface{}  →  any
//	named-const   a numeric or string literal in a function body  →  a package-level untyped constant with that value
//	rename-func   an unexported function or method renamed consistently (not referenced by tests, not an interface method)
//	rename-field  an unexported struct field renamed consistently (not referenced by tests)
//	method-func   unexported method m of T  →  function m(recv T, …), every call x.m(a) → m(x, a)
package main

import (
	"bytes"
	"flag"
	"fmt"
	"go/ast"
	"go/format"
	"go/token"
	"go/types"
	"os"
	"path/filepath"
	"regexp"
	"sort"
	"strings"

	"golang.org/x/tools/go/packages"
)

type site struct {
	file   string
	line   int
	op     string
	detail string
	apply  func()
	files  []string // files touched (default: file)
}

var (
	fset  *token.FileSet
	info  *types.Info
	tpkg  *types.Package
	nameN int
)

func main() {
	repo := flag.String("repo", "/repo", "repository root")
	list := flag.Bool("list", false, "list rewrite sites")
	apply := flag.Int("apply", -1, "site id to apply")
	many := flag.String("applymany", "", "comma-separated site ids applied together (a later rewrite that meets a node an earlier one replaced is skipped by the build filter)")
	out := flag.String("out", "", "directory (copy of the repo) that receives the rewritten files")
	flag.Parse()
	cfg := &packages.Config{Mode: packages.NeedName | packages.NeedFiles | packages.NeedSyntax | packages.NeedTypes | packages.NeedTypesInfo | packages.NeedCompiledGoFiles, Dir: *repo}
	pkgs, err := packages.Load(cfg, ".")
	if err != nil || len(pkgs) != 1 || len(pkgs[0].Errors) > 0 {
		fmt.Fprintln(os.Stderr, "load failed", err, pkgs)
		os.Exit(2)
	}
	p := pkgs[0]
	fset, info, tpkg = p.Fset, p.TypesInfo, p.Types
	testText := ""
	tfs, _ := filepath.Glob(filepath.Join(*repo, "*_test.go"))
	for _, f := range tfs {
		b, _ := os.ReadFile(f)
		testText += string(b)
	}
	parsed := map[string]*ast.File{}
	var names []string
	for i, af := range p.Syntax {
		f := p.CompiledGoFiles[i]
		if strings.HasSuffix(f, "doc.go") {
			continue
		}
		parsed[f] = af
		names = append(names, f)
	}
	sort.Strings(names)
	var sites []site
	for _, f := range names {
		sites = append(sites, sitesOf(f, parsed[f])...)
	}
	sites = append(sites, swapSites(parsed, names, testText)...)
	sites = append(sites, structuralSites(parsed, names, testText)...)
	if *list {
		for i, s := range sites {
			fmt.Printf("%d %s:%d %s %s\n", i, filepath.Base(s.file), s.line, s.op, s.detail)
		}
		return
	}
	if *many != "" && *out != "" {
		touchedSet := map[string]bool{}
		var descs []string
		for _, part := range strings.Split(*many, ",") {
			var id int
			if _, err := fmt.Sscanf(strings.TrimSpace(part), "%d", &id); err != nil || id < 0 || id >= len(sites) {
				continue
			}
			st := sites[id]
			st.apply()
			if len(st.files) == 0 {
				touchedSet[st.file] = true
			}
			for _, f := range st.files {
				touchedSet[f] = true
			}
			descs = append(descs, fmt.Sprintf("%d:%s@%s:%d", id, st.op, filepath.Base(st.file), st.line))
		}
		for f := range touchedSet {
			var buf bytes.Buffer
			if err := format.Node(&buf, fset, parsed[f]); err != nil {
				fmt.Fprintln(os.Stderr, err)
				os.Exit(2)
			}
			src, err := format.Source(buf.Bytes())
			if err != nil {
				src = buf.Bytes()
			}
			src = anyMark.ReplaceAll(src, []byte("any"))
			os.WriteFile(filepath.Join(*out, filepath.Base(f)), src, 0o644)
		}
		fmt.Printf("combo %s\n", strings.Join(descs, " "))
		return
	}
	if *apply < 0 || *apply >= len(sites) || *out == "" {
		fmt.Fprintln(os.Stderr, "nothing to do")
		os.Exit(2)
	}
	s := sites[*apply]
	s.apply()
	touched := s.files
	if len(touched) == 0 {
		touched = []string{s.file}
	}
	for _, f := range touched {
		var buf bytes.Buffer
		if err := format.Node(&buf, fset, parsed[f]); err != nil {
			fmt.Fprintln(os.Stderr, err)
			os.Exit(2)
		}
		// re-format (inserted statements carry no positions)
		src, err := format.Source(buf.Bytes())
		if err != nil {
			src = buf.Bytes()
		}
		src = anyMark.ReplaceAll(src, []byte("any"))
		if err := os.WriteFile(filepath.Join(*out, filepath.Base(f)), src, 0o644); err != nil {
			fmt.Fprintln(os.Stderr, err)
			os.Exit(2)
		}
	}
	fmt.Printf("%d %s:%d %s %s\n", *apply, filepath.Base(s.file), s.line, s.op, s.detail)
}

func not(e ast.Expr) ast.Expr {
	return &ast.UnaryExpr{Op: token.NOT, X: &ast.ParenExpr{X: e}}
}

var flip = map[token.Token]token.Token{token.LSS: token.GTR, token.GTR: token.LSS, token.LEQ: token.GEQ, token.GEQ: token.LEQ, token.EQL: token.EQL, token.NEQ: token.NEQ}

// pure: evaluation has no effect and cannot be affected by evaluating a sibling first.
func pure(e ast.Expr) bool {
	switch x := e.(type) {
	case *ast.Ident, *ast.BasicLit:
		return true
	case *ast.SelectorExpr:
		return pure(x.X)
	case *ast.ParenExpr:
		return pure(x.X)
	case *ast.IndexExpr:
		return false // may panic: order of panics is observable
	case *ast.UnaryExpr:
		return (x.Op == token.SUB || x.Op == token.NOT || x.Op == token.AND) && pure(x.X)
	case *ast.CallExpr:
		if id, ok := x.Fun.(*ast.Ident); ok && len(x.Args) == 1 {
			if _, isB := info.Uses[id].(*types.Builtin); isB && id.Name == "len" {
				return pure(x.Args[0])
			}
			if tv, ok := info.Types[x.Fun]; ok && tv.IsType() {
				return pure(x.Args[0])
			}
		}
		if tv, ok := info.Types[x.Fun]; ok && tv.IsType() && len(x.Args) == 1 {
			return pure(x.Args[0])
		}
	}
	return false
}

func sitesOf(file string, af *ast.File) []site {
	var out []site
	add := func(n ast.Node, op, detail string, apply func()) {
		out = append(out, site{file: file, line: fset.Position(n.Pos()).Line, op: op, detail: detail, apply: apply})
	}
	fresh := func(prefix string) string {
		nameN++
		return fmt.Sprintf("%s%d", prefix, nameN)
	}
	var visitList func(get func() []ast.Stmt, set func([]ast.Stmt), inLoop bool)
	visitList = func(get func() []ast.Stmt, set func([]ast.Stmt), inLoop bool) {
		list := get()
		for i0, st := range list {
			i, st := i0, st
			_ = i
			// edits locate the statement in the list as it is when they are applied (several rewrites may be combined)
			at := func() int {
				for j, x := range get() {
					if x == st {
						return j
					}
				}
				return -1
			}
			replace := func(_ int, with []ast.Stmt) {
				j := at()
				if j < 0 {
					return
				}
				cur := get()
				set(append(append(append([]ast.Stmt(nil), cur[:j]...), with...), cur[j+1:]...))
			}
			// the statements after st, as they are at application time; truncate drops them
			restNow := func() []ast.Stmt {
				j := at()
				if j < 0 {
					return nil
				}
				return append([]ast.Stmt(nil), get()[j+1:]...)
			}
			truncate := func(_ int) {
				if j := at(); j >= 0 {
					set(get()[:j+1])
				}
			}
			_ = restNow
			switch x := st.(type) {
			case *ast.IfStmt:
				if x.Init == nil {
					add(x, "name-cond", exprShort(x.Cond), func() {
						name := fresh("condEq")
						as := &ast.AssignStmt{Lhs: []ast.Expr{ast.NewIdent(name)}, Tok: token.DEFINE, Rhs: []ast.Expr{x.Cond}}
						x.Cond = ast.NewIdent(name)
						replace(i, []ast.Stmt{as, x})
					})
				}
				// clamp-builtin
				if x.Init == nil && x.Else == nil && len(x.Body.List) == 1 {
					if be, ok := x.Cond.(*ast.BinaryExpr); ok && (be.Op == token.GTR || be.Op == token.LSS) && pure(be.X) && pure(be.Y) {
						if as, ok := x.Body.List[0].(*ast.AssignStmt); ok && as.Tok == token.ASSIGN && len(as.Lhs) == 1 && len(as.Rhs) == 1 &&
							exprShort(as.Lhs[0]) == exprShort(be.X) && exprShort(as.Rhs[0]) == exprShort(be.Y) {
							if t := info.TypeOf(be.X); t != nil {
								if b, isB := t.Underlying().(*types.Basic); isB && b.Info()&types.IsInteger != 0 && types.Identical(t, info.TypeOf(be.Y)) {
									fn := "min"
									if be.Op == token.LSS {
										fn = "max"
									}
									add(x, "clamp-builtin", exprShort(x.Cond), func() {
										replace(i, []ast.Stmt{&ast.AssignStmt{Lhs: []ast.Expr{be.X}, Tok: token.ASSIGN, Rhs: []ast.Expr{&ast.CallExpr{Fun: ast.NewIdent(fn), Args: []ast.Expr{be.X, be.Y}}}}})
									})
								}
							}
						}
					}
				}
				// else-wrap: if C {…; return}; rest  →  if C {…; return} else { rest }
				if x.Else == nil && len(x.Body.List) > 0 && i+1 < len(list) {
					if _, isRet := x.Body.List[len(x.Body.List)-1].(*ast.ReturnStmt); isRet && !hasLabel(list[i+1:]) {
						add(x, "else-wrap", exprShort(x.Cond), func() {
							rest := restNow()
							if x.Else != nil || len(rest) == 0 || hasLabel(rest) {
								return
							}
							x.Else = &ast.BlockStmt{List: rest}
							truncate(i + 1)
						})
					}
				}
				// split-and / merge-if
				if x.Else == nil && x.Init == nil {
					if be, ok := x.Cond.(*ast.BinaryExpr); ok && be.Op == token.LAND {
						add(x, "split-and", exprShort(x.Cond), func() {
							if x.Cond != ast.Expr(be) || x.Else != nil {
								return
							}
							inner := &ast.IfStmt{Cond: be.Y, Body: x.Body}
							x.Cond = be.X
							x.Body = &ast.BlockStmt{List: []ast.Stmt{inner}}
						})
					}
					if len(x.Body.List) == 1 {
						if inner, ok := x.Body.List[0].(*ast.IfStmt); ok && inner.Else == nil && inner.Init == nil {
							add(x, "merge-if", exprShort(x.Cond), func() {
								if len(x.Body.List) != 1 || x.Body.List[0] != ast.Stmt(inner) || x.Else != nil || inner.Else != nil {
									return
								}
								x.Cond = &ast.BinaryExpr{X: &ast.ParenExpr{X: x.Cond}, Op: token.LAND, Y: &ast.ParenExpr{X: inner.Cond}}
								x.Body = inner.Body
							})
						}
					}
				}
				// nest-guard: if C { continue } ; rest  →  if !(C) { rest }
				if inLoop && x.Init == nil && x.Else == nil && len(x.Body.List) == 1 && i+1 < len(list) {
					if br, ok := x.Body.List[0].(*ast.BranchStmt); ok && br.Tok == token.CONTINUE && br.Label == nil {
						add(x, "nest-guard", exprShort(x.Cond), func() {
							rest := restNow()
							if len(rest) == 0 || x.Else != nil || len(x.Body.List) != 1 {
								return
							}
							if br, ok := x.Body.List[0].(*ast.BranchStmt); !ok || br.Tok != token.CONTINUE {
								return
							}
							x.Cond = not(x.Cond)
							x.Body = &ast.BlockStmt{List: rest}
							truncate(i + 1)
						})
					}
				}
				// early-cont: loop body ending in if C {A}
				if inLoop && x.Init == nil && x.Else == nil && i == len(list)-1 && len(x.Body.List) > 0 {
					add(x, "early-cont", exprShort(x.Cond), func() {
						if len(restNow()) != 0 || x.Else != nil {
							return
						}
						body := x.Body.List
						x.Cond = not(x.Cond)
						x.Body = &ast.BlockStmt{List: []ast.Stmt{&ast.BranchStmt{Tok: token.CONTINUE}}}
						replace(i, append([]ast.Stmt{x}, body...))
					})
				}
			case *ast.SwitchStmt:
				if x.Init == nil && (x.Tag == nil || pure(x.Tag)) && switchPlain(x) && len(x.Body.List) > 0 {
					add(x, "switch-if", exprShortN(x.Tag), func() {
						replace(i, []ast.Stmt{switchToIf(x)})
					})
				}
			case *ast.RangeStmt:
				if x.Tok == token.DEFINE && x.Key != nil && pure(x.X) && isSlice(x.X) && !writes(x.Body, x.X) {
					kid, kok := x.Key.(*ast.Ident)
					var vid *ast.Ident
					vok := x.Value == nil
					if x.Value != nil {
						vid, vok = x.Value.(*ast.Ident)
					}
					if kok && vok {
						add(x, "range-index", exprShort(x.X), func() {
							key := kid.Name
							if key == "_" {
								key = fresh("idxEq")
							}
							body := x.Body.List
							if vid != nil && vid.Name != "_" {
								body = append([]ast.Stmt{&ast.AssignStmt{Lhs: []ast.Expr{ast.NewIdent(vid.Name)}, Tok: token.DEFINE, Rhs: []ast.Expr{&ast.IndexExpr{X: x.X, Index: ast.NewIdent(key)}}}}, body...)
							}
							fs := &ast.ForStmt{
								Init: &ast.AssignStmt{Lhs: []ast.Expr{ast.NewIdent(key)}, Tok: token.DEFINE, Rhs: []ast.Expr{&ast.BasicLit{Kind: token.INT, Value: "0"}}},
								Cond: &ast.BinaryExpr{X: ast.NewIdent(key), Op: token.LSS, Y: &ast.CallExpr{Fun: ast.NewIdent("len"), Args: []ast.Expr{x.X}}},
								Post: &ast.IncDecStmt{X: ast.NewIdent(key), Tok: token.INC},
								Body: &ast.BlockStmt{List: body},
							}
							replace(i, []ast.Stmt{fs})
						})
					}
				}
			case *ast.AssignStmt:
				if opTok, ok := opAssign[x.Tok]; ok && len(x.Lhs) == 1 && pure(x.Lhs[0]) {
					add(x, "op-assign", exprShort(x.Lhs[0]), func() {
						x.Rhs[0] = &ast.BinaryExpr{X: x.Lhs[0], Op: opTok, Y: &ast.ParenExpr{X: x.Rhs[0]}}
						x.Tok = token.ASSIGN
					})
				}
				if x.Tok == token.DEFINE && len(x.Lhs) == 1 && len(x.Rhs) == 1 {
					if id, ok := x.Lhs[0].(*ast.Ident); ok && id.Name != "_" {
						if tv, ok := info.Types[x.Rhs[0]]; ok && !tv.IsNil() {
							if _, isTuple := tv.Type.(*types.Tuple); !isTuple {
								add(x, "var-decl", id.Name, func() {
									replace(i, []ast.Stmt{&ast.DeclStmt{Decl: &ast.GenDecl{Tok: token.VAR, Specs: []ast.Spec{&ast.ValueSpec{Names: []*ast.Ident{ast.NewIdent(id.Name)}, Values: []ast.Expr{x.Rhs[0]}}}}}})
								})
							}
						}
					}
				}
			case *ast.IncDecStmt:
				if pure(x.X) {
					add(x, "incdec", exprShort(x.X), func() {
						tok := token.ADD_ASSIGN
						if x.Tok == token.DEC {
							tok = token.SUB_ASSIGN
						}
						replace(i, []ast.Stmt{&ast.AssignStmt{Lhs: []ast.Expr{x.X}, Tok: tok, Rhs: []ast.Expr{&ast.BasicLit{Kind: token.INT, Value: "1"}}}})
					})
				}
			case *ast.ReturnStmt:
				if len(x.Results) == 1 {
					if _, isId := x.Results[0].(*ast.Ident); isId {
						break
					}
					if _, isLit := x.Results[0].(*ast.BasicLit); isLit {
						break
					}
					if tv, ok := info.Types[x.Results[0]]; ok {
						if _, isTuple := tv.Type.(*types.Tuple); isTuple || tv.IsNil() {
							break
						}
						if b, isB := tv.Type.(*types.Basic); isB && b.Info()&types.IsUntyped != 0 {
							break
						}
					}
					add(x, "ret-temp", exprShort(x.Results[0]), func() {
						name := fresh("resEq")
						as := &ast.AssignStmt{Lhs: []ast.Expr{ast.NewIdent(name)}, Tok: token.DEFINE, Rhs: []ast.Expr{x.Results[0]}}
						x.Results[0] = ast.NewIdent(name)
						replace(i, []ast.Stmt{as, x})
					})
				}
			}
		}
	}
	// loop bodies: the statement lists that are directly the body of a for / range statement
	loopBody := map[*ast.BlockStmt]bool{}
	ast.Inspect(af, func(n ast.Node) bool {
		switch x := n.(type) {
		case *ast.ForStmt:
			loopBody[x.Body] = true
		case *ast.RangeStmt:
			loopBody[x.Body] = true
		}
		return true
	})
	ast.Inspect(af, func(n ast.Node) bool {
		switch x := n.(type) {
		case *ast.GenDecl:
			if x.Tok == token.IMPORT {
				return false
			}
		case *ast.BlockStmt:
			visitList(func() []ast.Stmt { return x.List }, func(l []ast.Stmt) { x.List = l }, loopBody[x])
			// range-int (needs the containing list to replace the statement)
			for i, st := range x.List {
				fs, ok := st.(*ast.ForStmt)
				if !ok {
					continue
				}
				if rs := rangeIntOf(fs); rs != nil {
					i, blk, fs := i, x, fs
					_ = i
					add(fs, "range-int", exprShort(fs.Cond), func() {
						for j, y := range blk.List {
							if y == ast.Stmt(fs) {
								blk.List[j] = rs
							}
						}
					})
				}
			}

		case *ast.CaseClause:
			visitList(func() []ast.Stmt { return x.Body }, func(l []ast.Stmt) { x.Body = l }, false)
		case *ast.CommClause:
			visitList(func() []ast.Stmt { return x.Body }, func(l []ast.Stmt) { x.Body = l }, false)
		case *ast.IfStmt:
			if blk, ok := x.Else.(*ast.BlockStmt); ok {
				add(x, "invert-if", exprShort(x.Cond), func() {
					if x.Else != ast.Stmt(blk) {
						return
					}
					x.Cond = not(x.Cond)
					x.Body, x.Else = blk, x.Body
				})
			}
			if be, ok := x.Cond.(*ast.BinaryExpr); ok && (be.Op == token.LAND || be.Op == token.LOR) {
				add(x, "demorgan", exprShort(x.Cond), func() {
					if x.Cond != ast.Expr(be) {
						return // another rewrite of the combination replaced the condition
					}
					op := token.LOR
					if be.Op == token.LOR {
						op = token.LAND
					}
					x.Cond = not(&ast.BinaryExpr{X: not(be.X), Op: op, Y: not(be.Y)})
				})
			}
		case *ast.ForStmt:
			if post, ok := x.Post.(*ast.IncDecStmt); ok && pure(post.X) {
				add(x, "incdec", exprShort(post.X), func() {
					tok := token.ADD_ASSIGN
					if post.Tok == token.DEC {
						tok = token.SUB_ASSIGN
					}
					x.Post = &ast.AssignStmt{Lhs: []ast.Expr{post.X}, Tok: tok, Rhs: []ast.Expr{&ast.BasicLit{Kind: token.INT, Value: "1"}}}
				})
			}
		case *ast.InterfaceType:
			if x.Methods == nil || len(x.Methods.List) == 0 {
				add(x, "iface-any", "interface{}", func() {
					// the printer shows an empty method list as interface{}: mark it for the textual pass below
					x.Methods = &ast.FieldList{List: []*ast.Field{{Type: ast.NewIdent("anyEqMARK")}}}
				})
			}
		case *ast.BinaryExpr:
			if t, ok := flip[x.Op]; ok && pure(x.X) && pure(x.Y) {
				add(x, "flip-cmp", exprShort(x), func() { x.X, x.Y, x.Op = x.Y, x.X, t })
			}
		}
		return true
	})
	return out
}

// swapSites: adjacent parameters of unexported functions and methods exchanged, with every call site.
func swapSites(parsed map[string]*ast.File, names []string, testText string) []site {
	var out []site
	// interface method names of the package: methods that may satisfy them keep their signature
	ifaceMethods := map[string]bool{}
	for _, n := range tpkg.Scope().Names() {
		if tn, ok := tpkg.Scope().Lookup(n).(*types.TypeName); ok {
			if it, ok := tn.Type().Underlying().(*types.Interface); ok {
				for i := 0; i < it.NumMethods(); i++ {
					ifaceMethods[it.Method(i).Name()] = true
				}
			}
		}
	}
	for _, m := range []string{"Len", "Less", "Swap", "Push", "Pop", "Write", "Read", "Close", "Error", "String"} {
		ifaceMethods[m] = true
	}
	// uses of every function object: call sites and other uses
	type use struct {
		file string
		call *ast.CallExpr
	}
	calls := map[types.Object][]use{}
	other := map[types.Object]bool{}
	for _, f := range names {
		af := parsed[f]
		inCallFun := map[*ast.Ident]*ast.CallExpr{}
		ast.Inspect(af, func(n ast.Node) bool {
			if c, ok := n.(*ast.CallExpr); ok {
				switch fn := c.Fun.(type) {
				case *ast.Ident:
					inCallFun[fn] = c
				case *ast.SelectorExpr:
					inCallFun[fn.Sel] = c
				}
			}
			return true
		})
		ast.Inspect(af, func(n ast.Node) bool {
			id, ok := n.(*ast.Ident)
			if !ok {
				return true
			}
			obj, ok := info.Uses[id].(*types.Func)
			if !ok || obj.Pkg() != tpkg {
				return true
			}
			if c, isCall := inCallFun[id]; isCall {
				calls[obj] = append(calls[obj], use{f, c})
			} else {
				other[obj] = true
			}
			return true
		})
	}
	for _, f := range names {
		af := parsed[f]
		for _, d := range af.Decls {
			fd, ok := d.(*ast.FuncDecl)
			if !ok || fd.Body == nil || ast.IsExported(fd.Name.Name) || fd.Type.TypeParams != nil {
				continue
			}
			obj, _ := info.Defs[fd.Name].(*types.Func)
			if obj == nil || other[obj] || strings.Contains(testText, fd.Name.Name+"(") || (fd.Recv != nil && ifaceMethods[fd.Name.Name]) {
				continue
			}
			if fd.Name.Name == "init" || fd.Name.Name == "main" {
				continue
			}
			// flatten the parameters
			type param struct {
				name *ast.Ident
				typ  ast.Expr
			}
			var ps []param
			okFlat := true
			for _, fld := range fd.Type.Params.List {
				if _, isEll := fld.Type.(*ast.Ellipsis); isEll || len(fld.Names) == 0 {
					okFlat = false
				}
				for _, n := range fld.Names {
					ps = append(ps, param{n, fld.Type})
				}
			}
			if !okFlat || len(ps) < 2 {
				continue
			}
			for i := 0; i+1 < len(ps); i++ {
				i := i
				pureArgs := true
				for _, u := range calls[obj] {
					if len(u.call.Args) != len(ps) || !pure(u.call.Args[i]) || !pure(u.call.Args[i+1]) {
						pureArgs = false
					}
				}
				if !pureArgs {
					continue
				}
				touched := map[string]bool{f: true}
				for _, u := range calls[obj] {
					touched[u.file] = true
				}
				var tl []string
				for t := range touched {
					tl = append(tl, t)
				}
				sort.Strings(tl)
				fd, ps, uses := fd, ps, calls[obj]
				out = append(out, site{file: f, line: fset.Position(fd.Pos()).Line, op: "swap-params",
					detail: fmt.Sprintf("%s %s<->%s (%d call sites)", fd.Name.Name, ps[i].name.Name, ps[i+1].name.Name, len(uses)), files: tl,
					apply: func() {
						q := append([]param(nil), ps...)
						q[i], q[i+1] = q[i+1], q[i]
						var fl []*ast.Field
						for _, p := range q {
							fl = append(fl, &ast.Field{Names: []*ast.Ident{ast.NewIdent(p.name.Name)}, Type: p.typ})
						}
						fd.Type.Params.List = fl
						for _, u := range uses {
							u.call.Args[i], u.call.Args[i+1] = u.call.Args[i+1], u.call.Args[i]
						}
					}})
			}
		}
	}
	return out
}

func exprShort(e ast.Expr) string {
	var b bytes.Buffer
	format.Node(&b, fset, e)
	s := strings.Join(strings.Fields(b.String()), " ")
	if len(s) > 60 {
		s = s[:60]
	}
	return s
}

var anyMark = regexp.MustCompile(`interface\s*\{\s*anyEqMARK\s*\}`)

var opAssign = map[token.Token]token.Token{token.ADD_ASSIGN: token.ADD, token.SUB_ASSIGN: token.SUB, token.MUL_ASSIGN: token.MUL, token.QUO_ASSIGN: token.QUO}

func exprShortN(e ast.Expr) string {
	if e == nil {
		return "(tagless)"
	}
	return exprShort(e)
}

func hasLabel(list []ast.Stmt) bool {
	found := false
	for _, st := range list {
		if _, ok := st.(*ast.LabeledStmt); ok {
			found = true
		}
	}
	return found
}

func isSlice(e ast.Expr) bool {
	tv, ok := info.Types[e]
	if !ok {
		return false
	}
	_, isS := tv.Type.Underlying().(*types.Slice)
	return isS
}

// writes: the body assigns to (the root variable of) x, appends to it, or takes its address.
func writes(body *ast.BlockStmt, x ast.Expr) bool {
	root := x
	for {
		switch y := root.(type) {
		case *ast.SelectorExpr:
			root = y.X
			continue
		case *ast.ParenExpr:
			root = y.X
			continue
		}
		break
	}
	rid, ok := root.(*ast.Ident)
	if !ok {
		return true
	}
	obj := info.Uses[rid]
	if obj == nil {
		return true
	}
	want := exprShort(x)
	found := false
	ast.Inspect(body, func(n ast.Node) bool {
		switch y := n.(type) {
		case *ast.AssignStmt:
			for _, l := range y.Lhs {
				if id, ok := l.(*ast.Ident); ok && info.Uses[id] == obj {
					found = true
				}
				if exprShort(l) == want {
					found = true
				}
			}
		case *ast.CallExpr:
			// any call may reach the container through the root object (method calls, helpers): be conservative when the
			// root is mentioned as receiver or argument of a non-builtin call
			if id, ok := y.Fun.(*ast.Ident); ok {
				if _, isB := info.Uses[id].(*types.Builtin); isB && id.Name != "append" {
					return true
				}
			}
			ast.Inspect(y, func(m ast.Node) bool {
				if id, ok := m.(*ast.Ident); ok && info.Uses[id] == obj {
					found = true
				}
				return true
			})
		case *ast.UnaryExpr:
			if y.Op == token.AND {
				ast.Inspect(y.X, func(m ast.Node) bool {
					if id, ok := m.(*ast.Ident); ok && info.Uses[id] == obj {
						found = true
					}
					return true
				})
			}
		}
		return true
	})
	return found
}

// switchPlain: expression switch whose clauses neither fall through nor break out of the switch.
func switchPlain(sw *ast.SwitchStmt) bool {
	ok := true
	for _, cl := range sw.Body.List {
		cc := cl.(*ast.CaseClause)
		for _, st := range cc.Body {
			ast.Inspect(st, func(n ast.Node) bool {
				switch y := n.(type) {
				case *ast.BranchStmt:
					if y.Tok == token.FALLTHROUGH || (y.Tok == token.BREAK && y.Label == nil) {
						ok = false
					}
				case *ast.ForStmt, *ast.RangeStmt, *ast.SwitchStmt, *ast.TypeSwitchStmt, *ast.SelectStmt, *ast.FuncLit:
					// a break inside belongs to the inner statement — but stay conservative and look no further
					inner := false
					ast.Inspect(y, func(m ast.Node) bool {
						if b, isB := m.(*ast.BranchStmt); isB && b.Tok == token.FALLTHROUGH {
							inner = true
						}
						return true
					})
					if inner {
						ok = false
					}
					return false
				}
				return true
			})
		}
		if sw.Tag != nil {
			for _, e := range cc.List {
				if !pure(e) {
					ok = false
				}
			}
		}
	}
	// the default clause must come last (or be absent) for a literal translation
	for i, cl := range sw.Body.List {
		if cl.(*ast.CaseClause).List == nil && i != len(sw.Body.List)-1 {
			ok = false
		}
	}
	return ok
}

func switchToIf(sw *ast.SwitchStmt) ast.Stmt {
	var first, last *ast.IfStmt
	var deflt *ast.BlockStmt
	for _, cl := range sw.Body.List {
		cc := cl.(*ast.CaseClause)
		if cc.List == nil {
			deflt = &ast.BlockStmt{List: cc.Body}
			continue
		}
		var cond ast.Expr
		for _, e := range cc.List {
			var c ast.Expr = e
			if sw.Tag != nil {
				c = &ast.BinaryExpr{X: sw.Tag, Op: token.EQL, Y: e}
			} else {
				c = &ast.ParenExpr{X: e}
			}
			if cond == nil {
				cond = c
			} else {
				cond = &ast.BinaryExpr{X: cond, Op: token.LOR, Y: c}
			}
		}
		is := &ast.IfStmt{Cond: cond, Body: &ast.BlockStmt{List: cc.Body}}
		if first == nil {
			first, last = is, is
		} else {
			last.Else = is
			last = is
		}
	}
	if first == nil {
		return deflt
	}
	if deflt != nil {
		last.Else = deflt
	}
	return first
}

// structuralSites: rename-local, move-func, method-func.
func structuralSites(parsed map[string]*ast.File, names []string, testText string) []site {
	var out []site
	// identifiers per object
	idents := map[types.Object][]*ast.Ident{}
	for id, obj := range info.Defs {
		if obj != nil {
			idents[obj] = append(idents[obj], id)
		}
	}
	for id, obj := range info.Uses {
		idents[obj] = append(idents[obj], id)
	}
	ifaceMethods := map[string]bool{}
	for _, n := range tpkg.Scope().Names() {
		if tn, ok := tpkg.Scope().Lookup(n).(*types.TypeName); ok {
			if it, ok := tn.Type().Underlying().(*types.Interface); ok {
				for i := 0; i < it.NumMethods(); i++ {
					ifaceMethods[it.Method(i).Name()] = true
				}
			}
		}
	}
	// named-const
	for _, f := range names {
		af := parsed[f]
		f := f
		for _, d := range af.Decls {
			fd, ok := d.(*ast.FuncDecl)
			if !ok || fd.Body == nil {
				continue
			}
			// parents, to replace the literal in place
			var stack []ast.Node
			ast.Inspect(fd.Body, func(n ast.Node) bool {
				if n == nil {
					stack = stack[:len(stack)-1]
					return true
				}
				stack = append(stack, n)
				bl, ok := n.(*ast.BasicLit)
				if !ok || (bl.Kind != token.INT && bl.Kind != token.FLOAT && bl.Kind != token.STRING) || len(stack) < 2 {
					return true
				}
				// not inside a type expression (array length), a constant declaration or a struct tag
				for _, anc := range stack {
					switch a := anc.(type) {
					case *ast.ArrayType, *ast.Field, *ast.StructType:
						return true
					case *ast.GenDecl:
						if a.Tok == token.CONST {
							return true
						}
					}
				}
				parent := stack[len(stack)-2]
				bl2 := bl
				out = append(out, site{file: f, line: fset.Position(bl.Pos()).Line, op: "named-const", detail: bl.Value, apply: func() {
					nameN++
					cn := fmt.Sprintf("litEq%d", nameN)
					id := ast.NewIdent(cn)
					replaced := false
					replaceChild(parent, bl2, id, &replaced)
					if !replaced {
						return
					}
					af.Decls = append(af.Decls, &ast.GenDecl{Tok: token.CONST, Specs: []ast.Spec{&ast.ValueSpec{Names: []*ast.Ident{ast.NewIdent(cn)}, Values: []ast.Expr{&ast.BasicLit{Kind: bl2.Kind, Value: bl2.Value}}}}})
				}})
				return true
			})
		}
	}
	// rename-field: every unexported field of a struct type declared in the package
	for _, f := range names {
		af := parsed[f]
		f := f
		ast.Inspect(af, func(n ast.Node) bool {
			st, ok := n.(*ast.StructType)
			if !ok || st.Fields == nil {
				return true
			}
			for _, fl := range st.Fields.List {
				for _, nm := range fl.Names {
					obj, _ := info.Defs[nm].(*types.Var)
					if obj == nil || !obj.IsField() || ast.IsExported(nm.Name) || nm.Name == "_" || strings.Contains(testText, "."+nm.Name) || strings.Contains(testText, nm.Name+":") {
						continue
					}
					ids := idents[obj]
					nm := nm
					out = append(out, site{file: f, line: fset.Position(nm.Pos()).Line, op: "rename-field", detail: nm.Name, files: names, apply: func() {
						nn := nm.Name + "Eq"
						for _, x := range ids {
							x.Name = nn
						}
					}})
				}
			}
			return true
		})
	}
	for _, f := range names {
		af := parsed[f]
		f := f
		for di, d := range af.Decls {
			fd, ok := d.(*ast.FuncDecl)
			if !ok || fd.Body == nil {
				continue
			}
			fd, di := fd, di
			// rename-func
			if fo, _ := info.Defs[fd.Name].(*types.Func); fo != nil && !ast.IsExported(fd.Name.Name) && fd.Name.Name != "init" && fd.Name.Name != "main" && fd.Name.Name != "_" &&
				!(fd.Recv != nil && ifaceMethods[fd.Name.Name]) && !strings.Contains(testText, fd.Name.Name+"(") && !strings.Contains(testText, "."+fd.Name.Name) {
				ids := idents[fo]
				out = append(out, site{file: f, line: fset.Position(fd.Pos()).Line, op: "rename-func", detail: fd.Name.Name, files: names, apply: func() {
					nn := fd.Name.Name + "Eq"
					for _, x := range ids {
						x.Name = nn
					}
				}})
			}
			// move-func
			if di != len(af.Decls)-1 {
				out = append(out, site{file: f, line: fset.Position(fd.Pos()).Line, op: "move-func", detail: fd.Name.Name, apply: func() {
					var nd []ast.Decl
					for j, x := range af.Decls {
						if j != di {
							nd = append(nd, x)
						}
					}
					// detach the comments so that the printer does not interleave them by position
					af.Comments = nil
					fd.Doc = nil
					af.Decls = append(nd, fd)
				}})
			}
			// rename-local: variables defined with := or var inside this function (not parameters, not results)
			seen := map[types.Object]bool{}
			ast.Inspect(fd.Body, func(n ast.Node) bool {
				id, ok := n.(*ast.Ident)
				if !ok {
					return true
				}
				obj, ok := info.Defs[id].(*types.Var)
				if !ok || obj == nil || obj.IsField() || id.Name == "_" || seen[obj] || obj.Parent() == nil || obj.Parent() == tpkg.Scope() {
					return true
				}
				seen[obj] = true
				ids := idents[obj]
				// embedded in a struct literal key or a closure capture makes no difference; skip names used in test text? locals are not visible there
				out = append(out, site{file: f, line: fset.Position(id.Pos()).Line, op: "rename-local", detail: fd.Name.Name + "." + id.Name, apply: func() {
					nn := id.Name + "Eq"
					for _, x := range ids {
						x.Name = nn
					}
				}})
				return true
			})
			// method-func
			if fd.Recv == nil || len(fd.Recv.List) != 1 || len(fd.Recv.List[0].Names) != 1 || ast.IsExported(fd.Name.Name) || ifaceMethods[fd.Name.Name] || fd.Type.TypeParams != nil {
				continue
			}
			obj, _ := info.Defs[fd.Name].(*types.Func)
			if obj == nil || strings.Contains(testText, "."+fd.Name.Name+"(") || tpkg.Scope().Lookup(fd.Name.Name) != nil {
				continue
			}
			if _, isGen := fd.Recv.List[0].Type.(*ast.IndexExpr); isGen {
				continue
			}
			// every use is a call through a selector
			type use struct {
				file string
				call *ast.CallExpr
				sel  *ast.SelectorExpr
			}
			var uses []use
			okUses := true
			nUses := 0
			for _, g := range names {
				ast.Inspect(parsed[g], func(n ast.Node) bool {
					switch x := n.(type) {
					case *ast.CallExpr:
						if sel, ok := x.Fun.(*ast.SelectorExpr); ok && info.Uses[sel.Sel] == obj {
							uses = append(uses, use{g, x, sel})
						}
					case *ast.Ident:
						if info.Uses[x] == obj {
							nUses++
						}
					}
					return true
				})
			}
			if nUses != len(uses) {
				okUses = false
			}
			// go / defer statements with method calls are fine (still calls)
			_, recvPtr := fd.Recv.List[0].Type.(*ast.StarExpr)
			for _, u := range uses {
				tv, ok := info.Types[u.sel.X]
				if !ok {
					okUses = false
					continue
				}
				_, argPtr := tv.Type.Underlying().(*types.Pointer)
				if recvPtr != argPtr && !(recvPtr && !argPtr && tv.Addressable()) && !(!recvPtr && argPtr) {
					okUses = false
				}
			}
			if !okUses {
				continue
			}
			touched := map[string]bool{f: true}
			for _, u := range uses {
				touched[u.file] = true
			}
			var tl []string
			for t := range touched {
				tl = append(tl, t)
			}
			sort.Strings(tl)
			out = append(out, site{file: f, line: fset.Position(fd.Pos()).Line, op: "method-func", detail: fmt.Sprintf("%s (%d call sites)", fd.Name.Name, len(uses)), files: tl, apply: func() {
				recv := fd.Recv.List[0]
				fd.Type.Params.List = append([]*ast.Field{{Names: recv.Names, Type: recv.Type}}, fd.Type.Params.List...)
				fd.Recv = nil
				for _, u := range uses {
					var arg ast.Expr = u.sel.X
					tv := info.Types[u.sel.X]
					_, argPtr := tv.Type.Underlying().(*types.Pointer)
					switch {
					case recvPtr && !argPtr:
						arg = &ast.UnaryExpr{Op: token.AND, X: arg}
					case !recvPtr && argPtr:
						arg = &ast.StarExpr{X: arg}
					}
					u.call.Fun = ast.NewIdent(fd.Name.Name)
					u.call.Args = append([]ast.Expr{arg}, u.call.Args...)
				}
			}})
		}
	}
	return out
}

// replaceChild replaces the expression old, a direct child of parent, by repl.
func replaceChild(parent ast.Node, old ast.Expr, repl ast.Expr, done *bool) {
	sw := func(e *ast.Expr) {
		if *e == old {
			*e = repl
			*done = true
		}
	}
	sws := func(es []ast.Expr) {
		for i := range es {
			sw(&es[i])
		}
	}
	switch p := parent.(type) {
	case *ast.BinaryExpr:
		sw(&p.X)
		sw(&p.Y)
	case *ast.UnaryExpr:
		sw(&p.X)
	case *ast.ParenExpr:
		sw(&p.X)
	case *ast.CallExpr:
		sws(p.Args)
	case *ast.IndexExpr:
		sw(&p.Index)
	case *ast.SliceExpr:
		sw(&p.Low)
		sw(&p.High)
		sw(&p.Max)
	case *ast.AssignStmt:
		sws(p.Rhs)
	case *ast.ReturnStmt:
		sws(p.Results)
	case *ast.KeyValueExpr:
		sw(&p.Value)
	case *ast.CompositeLit:
		sws(p.Elts)
	case *ast.ValueSpec:
		sws(p.Values)
	case *ast.IfStmt:
		sw(&p.Cond)
	case *ast.ForStmt:
		sw(&p.Cond)
	case *ast.CaseClause:
		sws(p.List)
	case *ast.SendStmt:
		sw(&p.Value)
	}
}

// rangeIntOf: the range-over-int form of a counted loop, or nil.
func rangeIntOf(fs *ast.ForStmt) *ast.RangeStmt {
	as, ok := fs.Init.(*ast.AssignStmt)
	if !ok || as.Tok != token.DEFINE || len(as.Lhs) != 1 || len(as.Rhs) != 1 {
		return nil
	}
	iv, ok := as.Lhs[0].(*ast.Ident)
	if !ok {
		return nil
	}
	iobj := info.Defs[iv]
	// start: 0 or T(0)
	start := as.Rhs[0]
	if c, isCall := start.(*ast.CallExpr); isCall && len(c.Args) == 1 {
		if tv, ok := info.Types[c.Fun]; ok && tv.IsType() {
			start = c.Args[0]
		}
	}
	if bl, ok := start.(*ast.BasicLit); !ok || bl.Value != "0" {
		return nil
	}
	be, ok := fs.Cond.(*ast.BinaryExpr)
	if !ok || be.Op != token.LSS {
		return nil
	}
	if id, ok := be.X.(*ast.Ident); !ok || info.Uses[id] != iobj {
		return nil
	}
	inc, ok := fs.Post.(*ast.IncDecStmt)
	if !ok || inc.Tok != token.INC {
		return nil
	}
	if id, ok := inc.X.(*ast.Ident); !ok || info.Uses[id] != iobj {
		return nil
	}
	// the bound: same type as the counter, invariant
	bound := be.Y
	ti, tb := info.TypeOf(iv), info.TypeOf(bound)
	if ti == nil || tb == nil || !types.Identical(ti, tb) {
		return nil
	}
	inner := bound
	if c, isCall := inner.(*ast.CallExpr); isCall && len(c.Args) == 1 {
		if id, ok := c.Fun.(*ast.Ident); ok && id.Name == "len" {
			inner = c.Args[0]
		} else {
			return nil
		}
	}
	if !pure(inner) {
		return nil
	}
	if _, isLit := inner.(*ast.BasicLit); !isLit {
		if writes(fs.Body, inner) {
			return nil
		}
	}
	// the counter is not assigned in the body
	assigned := false
	ast.Inspect(fs.Body, func(n ast.Node) bool {
		switch y := n.(type) {
		case *ast.AssignStmt:
			for _, l := range y.Lhs {
				if id, ok := l.(*ast.Ident); ok && info.Uses[id] == iobj {
					assigned = true
				}
			}
		case *ast.IncDecStmt:
			if id, ok := y.X.(*ast.Ident); ok && info.Uses[id] == iobj {
				assigned = true
			}
		case *ast.UnaryExpr:
			if id, ok := y.X.(*ast.Ident); ok && y.Op == token.AND && info.Uses[id] == iobj {
				assigned = true
			}
		}
		return true
	})
	if assigned {
		return nil
	}
	return &ast.RangeStmt{Key: ast.NewIdent(iv.Name), Tok: token.DEFINE, X: bound, Body: fs.Body}
}

#!/bin/bash
# usage: tools_confirm_seed.sh <seed-dir> <dest-id>
# Confirms a seeded defect in a scratch worktree: patch applies, builds, existing suite passes with it,
# demo fails with it and passes without it. On success copies it to /verif/seeded/<dest-id>/.
set -u
SRC="$1"; ID="$2"
export GOFLAGS=-mod=mod GOPROXY=off
WT=$(mktemp -d /tmp/confirmXXXXXX); rmdir $WT
git -C /repo worktree add --detach $WT HEAD >/dev/null 2>&1 || { echo "worktree failed"; exit 2; }
cleanup() { git -C /repo worktree remove --force $WT >/dev/null 2>&1; }
trap cleanup EXIT
cd $WT
cp "$SRC/demo_test.go" zz_seed_demo_test.go
DEMO_RUN=$(grep -oE '^func (Test[A-Za-z0-9_]+)' zz_seed_demo_test.go | awk '{print $2}' | paste -sd'|')
RACE=""; grep -q '"-race"\|-race' "$SRC/meta.json" && RACE="-race"
if go test $RACE -count=1 -run "^($DEMO_RUN)\$" . > /tmp/confirm_without.$$ 2>&1; then WITHOUT=PASS; else WITHOUT=FAIL; fi
git apply "$SRC/patch.diff" || { echo "$ID: PATCH DOES NOT APPLY"; exit 3; }
go build ./... || { echo "$ID: DOES NOT BUILD"; exit 3; }
if go test $RACE -count=1 -run "^($DEMO_RUN)\$" . > /tmp/confirm_with.$$ 2>&1; then WITH=PASS; else WITH=FAIL; fi
rm zz_seed_demo_test.go
SUITE=PASS
for i in 1 2; do
  go test -count=1 ./... > /tmp/confirm_suite.$$ 2>&1 || {
    bad=$(grep -E '^--- FAIL' /tmp/confirm_suite.$$ | grep -vE 'TestRerankerWithFlatIndex|TestPersistentHybridIndex_CompactionThreshold' | head -3)
    if [ -n "$bad" ] || ! grep -qE '^--- FAIL' /tmp/confirm_suite.$$; then SUITE="FAIL: $bad $(tail -3 /tmp/confirm_suite.$$ | head -2)"; fi
  }
done
echo "$ID: demo without patch=$WITHOUT, with patch=$WITH, suite with patch=$SUITE (race=$RACE)"
if [ "$WITHOUT" = PASS ] && [ "$WITH" = FAIL ] && [ "$SUITE" = PASS ]; then
  mkdir -p /verif/seeded/$ID
  cp "$SRC/patch.diff" /verif/seeded/$ID/patch.diff
  cp "$SRC/demo_test.go" /verif/seeded/$ID/demo_test.go.txt
  python3 - "$SRC/meta.json" /verif/seeded/$ID/meta.json "$DEMO_RUN" "$RACE" <<'PY'
import json,sys
m=json.load(open(sys.argv[1]))
m['confirmed_by_me']={'demo_without_patch':'PASS','demo_with_patch':'FAIL','suite_with_patch':'PASS (2 runs; known flaky tests ignored)',
  'ran':f"scratch worktree of /repo HEAD: go test {sys.argv[4]} -run '^({sys.argv[3]})$' . before and after `git apply patch.diff`; then `go test -count=1 ./...` twice with the patch"}
json.dump(m,open(sys.argv[2],'w'),indent=1)
PY
  echo "$ID: KEPT"
else
  echo "$ID: REJECTED"; tail -5 /tmp/confirm_with.$$
fi
rm -f /tmp/confirm_without.$$ /tmp/confirm_with.$$ /tmp/confirm_suite.$$

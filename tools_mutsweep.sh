#!/bin/bash
# usage: tools_mutsweep.sh <out.tsv> <workers> [first-id last-id]
# Self-validation sweep (DESIGN 11.11): every single-site mutant of tools_mutgen is applied to a scratch copy of /repo; mutants
# that do not build are dropped; the checker runs on the rest; the test suite runs on those the checker leaves unreported.
# Output line: id <TAB> site <TAB> operator <TAB> detail <TAB> reported-properties|- <TAB> suite(pass|fail|-)
set -u
OUT=$1; W=${2:-6}
export PATH=/opt/veriftools/go1.26.8/bin:$PATH GOFLAGS=-mod=mod GOPROXY=off GOSUMDB=off GOTOOLCHAIN=local
(cd /verif/tools_mutgen && go build -o /tmp/mutgen .) || exit 2
N=$(/tmp/mutgen -repo /repo -list | wc -l)
A=${3:-0}; B=${4:-$((N-1))}
one() {
  id=$1
  S=$(mktemp -d /tmp/mswXXXXXX)
  rsync -a --exclude .git --exclude docs /repo/ $S/repo/
  mkdir -p $S/verif; cp /verif/KNOWN_FINDINGS.jsonl $S/verif/
  desc=$(/tmp/mutgen -repo /repo -apply $id -out $S/repo 2>/dev/null)
  site=$(echo "$desc" | awk '{print $2}'); op=$(echo "$desc" | awk '{print $3}'); det=$(echo "$desc" | cut -d' ' -f4-)
  if ! (cd $S/repo && go build ./... >/dev/null 2>&1 && go vet . >/dev/null 2>&1); then
    printf "%s\t%s\t%s\t%s\tNOBUILD\t-\n" "$id" "$site" "$op" "$det"; rm -rf $S; return
  fi
  /verif/bin/cometlint -prop all -repo $S/repo -verif $S/verif > $S/out.txt 2>&1
  props=$(grep -oE "^VIOLATION property=C[0-9]+" $S/out.txt | sed 's/VIOLATION property=//' | sort -u | paste -sd,)
  suite="-"
  if [ -z "$props" ]; then
    props="-"
    (cd $S/repo && timeout 180 go test -count=1 ./... > $S/test.txt 2>&1)
    rc=$?
    if [ $rc -eq 0 ]; then suite=pass
    else
      # only the two known-flaky tests failing counts as a pass
      bad=$(grep -E "^--- FAIL" $S/test.txt | grep -vE "TestRerankerWithFlatIndex|TestPersistentHybridIndex_CompactionThreshold" | wc -l)
      if [ $rc -ne 124 ] && [ "$bad" -eq 0 ] && grep -qE "^--- FAIL" $S/test.txt; then suite=pass; else suite=fail; fi
    fi
  fi
  printf "%s\t%s\t%s\t%s\t%s\t%s\n" "$id" "$site" "$op" "$det" "$props" "$suite"
  rm -rf $S
}
export -f one
seq $A $B | xargs -P $W -I{} bash -c 'one {}' >> $OUT
# every variant is built at a fresh path: the build cache grows by tens of GB over a sweep; drop it
go clean -cache >/dev/null 2>&1

#!/bin/bash
# usage: tools_eqcombo.sh <out.tsv> <workers> <variants> <sites-per-variant> [seed]
# Combined equivalence sweep (DESIGN 11.14): each variant applies <sites-per-variant> randomly chosen behaviour-preserving
# rewrites of tools_eqgen at once (all operators except move-func, which discards comments). Variants that do not build are
# dropped; every alarm on the rest is a false alarm by construction.
set -u
OUT=$1; W=${2:-6}; N=${3:-100}; K=${4:-8}; SEED=${5:-1}
export PATH=/opt/veriftools/go1.26.8/bin:$PATH GOFLAGS=-mod=mod GOPROXY=off GOSUMDB=off GOTOOLCHAIN=local GOWORK=off
(cd /verif/tools_eqgen && go build -o /tmp/eqgen .) || exit 2
/tmp/eqgen -repo /repo -list | awk '$3!="move-func"{print $1}' > /tmp/eqcombo_ids.txt
python3 - "$N" "$K" "$SEED" > /tmp/eqcombo_sets.txt <<'PY'
import random, sys
n, k, seed = int(sys.argv[1]), int(sys.argv[2]), int(sys.argv[3])
ids = [l.strip() for l in open('/tmp/eqcombo_ids.txt')]
rng = random.Random(seed)
for i in range(n):
    print(",".join(sorted(rng.sample(ids, k), key=int)))
PY
one() {
  set=$1
  S=$(mktemp -d /tmp/eqcbXXXXXX)
  rsync -a --exclude .git --exclude docs /repo/ $S/repo/
  mkdir -p $S/verif; cp /verif/KNOWN_FINDINGS.jsonl $S/verif/
  desc=$(/tmp/eqgen -repo /repo -applymany $set -out $S/repo 2>/dev/null)
  if ! (cd $S/repo && go build ./... >/dev/null 2>&1 && go vet . >/dev/null 2>&1); then
    printf "%s\t%s\tNOBUILD\n" "$set" "$desc"; rm -rf $S; return
  fi
  /verif/bin/cometlint -prop all -repo $S/repo -verif $S/verif > $S/out.txt 2>&1
  rules=$(grep -E "^(VIOLATION|UNDECIDED|UNRESOLVED|FLOOR|LOAD-FAILURE) " $S/out.txt | grep -v "^VIOLATION property" | awk '{print $2}' | sed 's/^C[0-9]*\.//' | sort -u | head -4 | paste -sd,)
  printf "%s\t%s\t%s\n" "$set" "$desc" "${rules:--}"
  rm -rf $S
}
export -f one
cat /tmp/eqcombo_sets.txt | xargs -P $W -I{} bash -c 'one {}' >> $OUT
# every variant is built at a fresh path: the build cache grows by tens of GB over a sweep; drop it
go clean -cache >/dev/null 2>&1

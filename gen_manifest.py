#!/usr/bin/env python3
# Generates MANIFEST.json from the table below (kept in one place so that the manifest stays valid).
import json, subprocess
claimed = json.load(open('claims.json'))
props = [json.loads(l) for l in open('properties.jsonl')]
checks, na = [], []
for p in props:
    pid = p['id']
    c = claimed.get(pid)
    if not c or not c.get('claimed'):
        na.append({"property_id": pid, "reason": (c or {}).get('reason', 'check under construction in this session: rules designed in DESIGN.md section 4 but not yet armed')})
        continue
    checks.append({
        "property_id": pid,
        "quick_cmd": f"./check.sh {pid} quick",
        "thorough_cmd": f"./check.sh {pid} thorough",
        "evidence_file": f"/verif/evidence/{pid}.json",
        "replay_cmd_template": "./bin/cometlint -explain {path}",
        "engine": "cometlint",
        "level_claimed": {"category": "other", "text": c['text'], "design_ref": f"DESIGN.md section 4, {pid}"},
        "level_note": c['note'],
        "technique": c['technique'],
    })
m = {
    "version": 1,
    "setup_cmd": "./setup.sh",
    "hooks": {"guard": "verif", "enable": "none needed: the checks read source; files guarded by -tags verif would be analysed by the thorough tier", "baseline_off_cmd": "cd /repo && GOFLAGS=-mod=mod GOPROXY=off go test -json -vet=off -count=1 -timeout 25m ./...", "source_commits": [], "add_only": True},
    "engines": [{"name": "cometlint", "path": "checker/", "serves_properties": [c['property_id'] for c in checks], "kind_free_text": "repository-specific static analyser over go/packages + go/ssa (x/tools v0.50.0): canonical SSA values, path enumeration with finite-order abstraction, dominance / reach-avoid queries, value-flow, lock sets, serialisation grammar extraction; analysed on an inlining normal form of the source (calls to helpers the pinned tree does not declare are inlined on an overlay: gopls inliner copied under checker/xt + a statement-level inliner), with rename resolution for unexported functions and struct fields"}],
    "checks": checks,
    "notes": "Static analysis only. Every check loads and type-checks /repo's working tree on each run and evaluates necessary structural conditions of the property; undecided / unresolved / below-floor instances fail. Known findings: KNOWN_FINDINGS.jsonl. Self-validation material: seeded/ (221 confirmed seeded defects with demonstrations, MATRIX.json), refactors/ (573 behaviour-preserving or benign-evolution diffs on which every check must stay silent), tools_eqgen + tools_eqsweep.sh / tools_eqcombo.sh (exhaustive single-site and combined behaviour-preserving rewrites: every alarm is a false alarm by construction), tools_mutgen + tools_mutsweep.sh (single-site mutants).",
    "not_applicable": na,
}
json.dump(m, open('MANIFEST.json', 'w'), indent=1)
print(len(checks), "claimed;", len(na), "not claimed")
